package main

import (
	"fmt"
	"os"
	"sort"

	"verif/internal/checks"
	"verif/internal/report"
)

func main() {
	if len(os.Args) < 2 {
		usage()
	}
	id := os.Args[1]
	if id == "replay" {
		if len(os.Args) < 3 {
			usage()
		}
		os.Exit(checks.Replay(os.Args[2]))
	}
	tier := os.Getenv("VERIF_TIER")
	if len(os.Args) > 2 {
		tier = os.Args[2]
	}
	if tier != "thorough" {
		tier = "quick"
	}
	c, ok := checks.Registry[id]
	if !ok {
		fmt.Println("unknown check", id)
		usage()
	}
	r := report.New(id, tier, c.Level)
	c.Run(r)
	r.Finish()
}

func usage() {
	var ids []string
	for k := range checks.Registry {
		ids = append(ids, k)
	}
	sort.Strings(ids)
	fmt.Println("usage: verif <id> [quick|thorough] | replay <path>; ids:", ids)
	os.Exit(2)
}
