package main

import (
	"encoding/json"
	"fmt"
	"os"
	"runtime"
	"runtime/debug"
	"runtime/pprof"
	"sort"

	"verif/internal/checks"
	"verif/internal/report"
)

func main() {
	if len(os.Args) < 2 {
		usage()
	}
	if d := os.Getenv("VERIF_C17_FIRST_DIV"); d != "" && os.Args[1] == "C17-child" {
		os.Exit(checks.C17FirstDivChild(d))
	}
	id := os.Args[1]
	if id == "replay" {
		if len(os.Args) < 3 {
			usage()
		}
		os.Exit(checks.Replay(os.Args[2]))
	}
	tier := os.Getenv("VERIF_TIER")
	if len(os.Args) > 2 {
		tier = os.Args[2]
	}
	if tier != "thorough" {
		tier = "quick"
	}
	c, ok := checks.Registry[id]
	if !ok {
		fmt.Println("unknown check", id)
		usage()
	}
	if os.Getenv("GOGC") == "" {
		// the explorers hold large pointer-dense tables (bus segment tables) and allocate briskly;
		// in this sandbox fresh pages are expensive, so a small heap that is reused beats a large one
		gc := c.GC
		if gc == 0 {
			gc = 400
		}
		debug.SetGCPercent(gc)
	}
	if f := os.Getenv("VERIF_MEMPROF"); f != "" {
		runtime.MemProfileRate = 4096
		defer func() {}()
	}
	if f := os.Getenv("VERIF_CPUPROF"); f != "" {
		if fh, err := os.Create(f); err == nil {
			pprof.StartCPUProfile(fh)
			report.AtExit = append(report.AtExit, pprof.StopCPUProfile)
		}
	}
	r := report.New(id, tier, c.Level)
	r.GoTest = checks.GoTestFor(id)
	if c.Replay != nil {
		r.Confirm = func(cs interface{}) (bool, string) {
			raw, err := json.Marshal(cs)
			if err != nil {
				return true, "case not serialisable"
			}
			obs, verr := c.Replay(raw)
			return verr != nil, obs
		}
	}
	c.Run(r)
	if f := os.Getenv("VERIF_MEMPROF"); f != "" {
		if fh, err := os.Create(f); err == nil {
			pprof.Lookup("allocs").WriteTo(fh, 0)
			fh.Close()
		}
	}
	r.Finish()
}

func usage() {
	var ids []string
	for k := range checks.Registry {
		ids = append(ids, k)
	}
	sort.Strings(ids)
	fmt.Println("usage: verif <id> [quick|thorough] | replay <path>; ids:", ids)
	os.Exit(2)
}
