// gen18 generates, for one build, the overlay that lets the C18 harness read every
// package-level variable of every alttpo/snes package (including unexported ones and ones a
// change may newly introduce): it parses the working tree with go/parser, writes one
// zz_verif_globals.go per package (package-internal accessor returning reflect.Values) plus the
// harness-side index, and an overlay.json mapping them into place. /repo is not touched.
//
// usage: gen18 <repo-dir> <out-dir> [extra-overlay.json]
package main

import (
	"encoding/json"
	"fmt"
	"go/ast"
	"go/parser"
	"go/token"
	"os"
	"path/filepath"
	"sort"
	"strings"
)

type overlay struct {
	Replace map[string]string
}

func main() {
	if len(os.Args) < 3 {
		fmt.Println("usage: gen18 <repo-dir> <out-dir> [extra-overlay.json]")
		os.Exit(2)
	}
	repo, out := os.Args[1], os.Args[2]
	extra := overlay{Replace: map[string]string{}}
	if len(os.Args) > 3 && os.Args[3] != "" {
		b, err := os.ReadFile(os.Args[3])
		if err == nil {
			_ = json.Unmarshal(b, &extra)
		}
	}
	_ = os.MkdirAll(out, 0o755)
	ov := overlay{Replace: map[string]string{}}
	for k, v := range extra.Replace {
		ov.Replace[k] = v
	}
	type pkg struct {
		dir, name, imp string
		vars           []string
	}
	var pkgs []pkg
	_ = filepath.Walk(repo, func(p string, info os.FileInfo, err error) error {
		if err != nil {
			return nil
		}
		if info.IsDir() {
			if strings.HasPrefix(info.Name(), ".") && p != repo {
				return filepath.SkipDir
			}
			return nil
		}
		return nil
	})
	dirs := map[string][]string{}
	_ = filepath.Walk(repo, func(p string, info os.FileInfo, err error) error {
		if err != nil || info.IsDir() {
			if err == nil && info.IsDir() && strings.HasPrefix(info.Name(), ".") && p != repo {
				return filepath.SkipDir
			}
			return nil
		}
		if strings.HasSuffix(p, ".go") && !strings.HasSuffix(p, "_test.go") && !strings.HasPrefix(info.Name(), "zz_verif_") {
			dirs[filepath.Dir(p)] = append(dirs[filepath.Dir(p)], p)
		}
		return nil
	})
	// files added by the extra overlay (new files of a change)
	for k := range extra.Replace {
		if strings.HasPrefix(k, repo+"/") && strings.HasSuffix(k, ".go") && !strings.HasSuffix(k, "_test.go") {
			d := filepath.Dir(k)
			found := false
			for _, f := range dirs[d] {
				if f == k {
					found = true
				}
			}
			if !found {
				dirs[d] = append(dirs[d], k)
			}
		}
	}
	var dl []string
	for d := range dirs {
		dl = append(dl, d)
	}
	sort.Strings(dl)
	fset := token.NewFileSet()
	for _, d := range dl {
		pk := pkg{dir: d}
		rel, _ := filepath.Rel(repo, d)
		pk.imp = "github.com/alttpo/snes"
		if rel != "." {
			pk.imp += "/" + filepath.ToSlash(rel)
		}
		seen := map[string]bool{}
		files := dirs[d]
		sort.Strings(files)
		for _, f := range files {
			src := f
			if r, ok := extra.Replace[f]; ok {
				if r == "" {
					continue
				}
				src = r
			}
			af, err := parser.ParseFile(fset, src, nil, parser.SkipObjectResolution)
			if err != nil {
				fmt.Println("gen18: cannot parse", src, err)
				os.Exit(2)
			}
			pk.name = af.Name.Name
			for _, decl := range af.Decls {
				gd, ok := decl.(*ast.GenDecl)
				if !ok || gd.Tok != token.VAR {
					continue
				}
				for _, sp := range gd.Specs {
					for _, n := range sp.(*ast.ValueSpec).Names {
						if n.Name != "_" && !seen[n.Name] {
							seen[n.Name] = true
							pk.vars = append(pk.vars, n.Name)
						}
					}
				}
			}
		}
		if pk.name == "" || pk.name == "main" {
			continue
		}
		sort.Strings(pk.vars)
		pkgs = append(pkgs, pk)
	}
	var idx strings.Builder
	idx.WriteString("//go:build verif18\n\npackage main\n\nimport (\n\t\"reflect\"\n")
	for i, pk := range pkgs {
		fmt.Fprintf(&idx, "\tp%d %q\n", i, pk.imp)
	}
	idx.WriteString(")\n\n// allGlobals returns every package-level variable of every alttpo/snes package.\nfunc allGlobals() map[string]reflect.Value {\n\tm := map[string]reflect.Value{}\n")
	total := 0
	for i, pk := range pkgs {
		var b strings.Builder
		fmt.Fprintf(&b, "package %s\n\nimport \"reflect\"\n\n// VerifGlobals exposes this package's package-level variables to the C18 harness (overlay only).\nfunc VerifGlobals() map[string]reflect.Value {\n\treturn map[string]reflect.Value{\n", pk.name)
		for _, v := range pk.vars {
			fmt.Fprintf(&b, "\t\t%q: reflect.ValueOf(&%s).Elem(),\n", v, v)
			total++
		}
		b.WriteString("\t}\n}\n")
		gen := filepath.Join(out, fmt.Sprintf("globals_%d.go", i))
		if err := os.WriteFile(gen, []byte(b.String()), 0o644); err != nil {
			fmt.Println(err)
			os.Exit(2)
		}
		ov.Replace[filepath.Join(pk.dir, "zz_verif_globals.go")] = gen
		fmt.Fprintf(&idx, "\tfor k, v := range p%d.VerifGlobals() {\n\t\tm[%q+k] = v\n\t}\n", i, pk.imp+".")
	}
	idx.WriteString("\treturn m\n}\n")
	genIdx := filepath.Join(out, "zz_gen.go")
	_ = os.WriteFile(genIdx, []byte(idx.String()), 0o644)
	self, _ := os.Getwd()
	ov.Replace[filepath.Join(self, "cmd/verif18/zz_gen.go")] = genIdx
	b, _ := json.MarshalIndent(ov, "", " ")
	_ = os.WriteFile(filepath.Join(out, "overlay.json"), b, 0o644)
	fmt.Printf("gen18: %d packages, %d package-level variables\n", len(pkgs), total)
}
