// verifone: the C05 region-table facet and the pak->bus->pak round trip for ONE mapper, in a binary that
// links only that mapper (build tag one_<mapper>). Usage: verifone [hex bus address]
package main

import (
	"fmt"
	"os"

	"verif/internal/mapone"
	"verif/internal/refmap"
)

func call(f func(uint32) (uint32, error), a uint32) (r uint32, err error, pn interface{}) {
	defer func() { pn = recover() }()
	r, err = f(a)
	return
}

func checkBus(a uint32) string {
	p, err, pn := call(mapone.BusToPak, a)
	cls, want := mapone.Table.Lookup(a)
	if pn != nil || (cls == refmap.Unmapped) != (err != nil) || (err == nil && p != want) {
		return fmt.Sprintf("%s.BusAddressToPak($%06x) = ($%06x,%v) (panic %v) in a program that links only this mapper; region table says %v $%06x", mapone.Name, a, p, err, pn, cls, want)
	}
	return ""
}

func checkPak(p uint32) string {
	b, err, pn := call(mapone.PakToBus, p)
	if pn != nil {
		return fmt.Sprintf("%s.PakAddressToBus($%06x) panics in a program that links only this mapper: %v", mapone.Name, p, pn)
	}
	if err != nil {
		return ""
	}
	if q, err2, pn2 := call(mapone.BusToPak, b); pn2 != nil || err2 != nil || refmap.ClassOfPak(q) != refmap.ClassOfPak(p) || q&0x1FFF != p&0x1FFF {
		return fmt.Sprintf("%s: pak $%06x -> bus $%06x -> ($%06x,%v) in a program that links only this mapper", mapone.Name, p, b, q, err2)
	}
	return ""
}

func main() {
	if mapone.Name == "" {
		fmt.Println("verifone: build with -tags one_<mapper>")
		os.Exit(2)
	}
	if len(os.Args) > 2 {
		var a uint32
		fmt.Sscanf(os.Args[2], "%x", &a)
		w := ""
		if os.Args[1] == "bus" {
			w = checkBus(a)
		} else {
			w = checkPak(a)
		}
		if w != "" {
			fmt.Println("ONE-BAD", os.Args[1], fmt.Sprintf("%06x", a), w)
		} else {
			fmt.Println("ONE-OK")
		}
		return
	}
	for a := uint32(0); a < 1<<24; a++ {
		if w := checkBus(a); w != "" {
			fmt.Println("ONE-BAD", "bus", fmt.Sprintf("%06x", a), w)
			return
		}
	}
	for p := uint32(0); p < 1<<24; p++ {
		if w := checkPak(p); w != "" {
			fmt.Println("ONE-BAD", "pak", fmt.Sprintf("%06x", p), w)
			return
		}
	}
	fmt.Println("ONE-OK", mapone.Name, 1<<25)
}
