package c18ops

import "testing"

// TestBodies runs every thread body once; used by tools/c18coverage.sh with -coverpkg to report
// which library code the C18 exploration reaches.
func TestBodies(t *testing.T) {
	for _, k := range Kinds {
		for v := 0; v < 3; v++ {
			th := New(k, v, 3)
			for i := 0; i < th.NumOps(); i++ {
				th.Do(i)
			}
			_ = th.State()
		}
	}
}
