// Package c18ops holds the thread bodies of property C18: each thread type drives one
// separately created library object through a few API calls. The same bodies are used by the
// controlled-scheduler exploration and by the free-running race pass.
package c18ops

import (
	"bytes"
	"crypto/sha1"
	"encoding/hex"
	"fmt"
	"io"
	"reflect"
	"sync"

	snes "github.com/alttpo/snes"
	"github.com/alttpo/snes/asm"
	"github.com/alttpo/snes/color15"
	"github.com/alttpo/snes/emulator"
	"github.com/alttpo/snes/emulator/bus"
	"github.com/alttpo/snes/emulator/cpu65c816"
	"github.com/alttpo/snes/emulator/cpualt"
	"github.com/alttpo/snes/emulator/memory"
	"github.com/alttpo/snes/mapping/exhirom"
	"github.com/alttpo/snes/mapping/hirom"
	"github.com/alttpo/snes/mapping/lorom"
	"github.com/alttpo/snes/mapping/sa1rom"
	"github.com/alttpo/snes/mapping/util"
)

// Thread is one library instance plus the operations performed on it.
type Thread interface {
	Kind() string
	NumOps() int
	// Do performs operation i and returns a digest of everything it returned/observed.
	Do(i int) string
	// State digests the observable state of the instance.
	State() string
}

var Kinds = []string{"sys", "cpu", "alt", "asm", "rom", "fn"}

// New creates a fresh instance of the given kind; variant selects different inputs so that two
// threads of the same kind never compute identical values.
func New(kind string, variant int, nops int) Thread {
	switch kind {
	case "sys":
		return newSys(variant, nops)
	case "cpu":
		return newCPU(variant, nops)
	case "alt":
		return newAlt(variant, nops)
	case "asm":
		return newAsm(variant, nops)
	case "asmd":
		return newAsmDerived(variant, nops)
	case "asmc":
		return newAsmSibling(variant, nops)
	case "asma":
		return newAsmAppender(variant, nops)
	case "asmw":
		return newAsmWindow(variant, nops)
	case "rom":
		return newROM(variant, nops)
	case "fn":
		return &fnT{v: variant, n: nops}
	}
	panic("unknown kind " + kind)
}

func digest(parts ...interface{}) string {
	h := sha1.New()
	for _, p := range parts {
		fmt.Fprintf(h, "%v|", p)
	}
	return hex.EncodeToString(h.Sum(nil)[:8])
}

func safeStep(step func() (int, bool)) (n int, st bool) {
	defer func() {
		if recover() != nil {
			n = -1
		}
	}()
	return step()
}

func safely(f func() string) (out string) {
	defer func() {
		if x := recover(); x != nil {
			out = fmt.Sprintf("panic:%v", x)
		}
	}()
	return f()
}

// program: decimal arithmetic in a width that depends on the variant, then a little loop that
// stores, pushes, branches and traces; differs per variant. Returns the code and the offsets of two
// instruction boundaries (used as RunUntil targets).
func program(v int) (code []byte, mid, end int) {
	code = []byte{0xC2, 0x30, 0xF8} // REP #$30; SED
	if v%2 == 1 {
		code = append(code, 0xE2, 0x20, 0xA9, byte(0x19+v), 0x69, 0x01, 0xE9, 0x02) // SEP #$20; LDA #; ADC #; SBC # (8-bit BCD)
	} else {
		code = append(code, 0xA9, 0x99, byte(0x12+v), 0x69, 0x01, 0x00, 0xE9, 0x02, 0x01) // 16-bit BCD
	}
	code = append(code, 0xD8, 0xC2, 0x20) // CLD; REP #$20
	mid = len(code)
	code = append(code,
		0xA9, byte(0x11+v), 0x22, // LDA #$22xx
		0x85, byte(0x10+2*v), // STA dp
		0x48,       // PHA
		0xE8,       // INX
		0x1A,       // INC A
		0xD0, 0xF8, // BNE back to STA
	)
	end = len(code)
	code = append(code, 0xEA, 0xDB) // NOP, STP
	return
}

// ---- emulator.System

type sysT struct {
	s   *emulator.System
	log bytes.Buffer
	v   int
	n   int
}

func newSys(v, n int) *sysT {
	t := &sysT{s: &emulator.System{}, v: v, n: n}
	if err := t.s.CreateEmulator(); err != nil {
		panic(err)
	}
	start := uint32(0x7E2000 + 0x100*v)
	code, _, _ := program(v)
	for i, b := range code {
		t.s.Bus.EaWrite(start+uint32(i), b)
	}
	t.s.CPU.SP = 0x01FF - uint16(0x20*v)
	t.s.SetPC(start)
	t.s.Logger = &t.log
	return t
}
func (t *sysT) Kind() string { return "sys" }
func (t *sysT) NumOps() int  { return t.n }
func (t *sysT) Do(i int) string {
	return safely(func() string {
		start := uint32(0x7E2000 + 0x100*t.v)
		_, mid, end := program(t.v)
		targets := []uint32{start + uint32(mid), start + uint32(end), 0x123456}
		budgets := []uint64{30, 60, 25}
		t.log.Reset()
		ok := t.s.RunUntil(targets[i%3], budgets[i%3])
		dump := make([]byte, 0x40)
		n := t.s.Bus.EaDump(start-3, start+0x30, dump)
		w24 := t.s.Bus.EaRead24_wrap(0x7E, uint16(start)+uint16(i))
		// the I/O register area, a ROM-typed memory and the RAM helpers
		t.s.Bus.EaWrite(uint32(0x002100+t.v), byte(0x80+i))
		io1 := t.s.Bus.EaRead(uint32(0x002100 + t.v))
		hw := &memory.FakeHW{}
		hw.Write(uint32(0x4200+t.v), 7)
		mr := memory.NewROM([]byte{1, 2, 3, byte(t.v)}, 0x100)
		mr.Write(0x101, 9)
		ram := memory.NewRAM(make([]byte, 8), 0x200)
		ram.Write(0x203, byte(t.v))
		sz := ram.Size() + mr.Size() + hw.Size()
		r3, h3 := mr.Read(0x103), hw.Read(uint32(0x4200+t.v))
		ram.Clear()
		mr.Clear()
		hw.Clear()
		// a logger that also implements Reserve/Commit
		rl := &reserveLog{}
		old := t.s.Logger
		t.s.Logger = rl
		ok2 := t.s.RunUntil(0x123456, uint64(3+t.v))
		t.s.Logger = old
		return digest(ok, t.log.String(), t.s.GetPC(), n, dump, w24, io1, sz, r3, h3, hw.Dump(0), ok2, rl.buf.String(), rl.reserved, rl.commits)
	})
}

type reserveLog struct {
	buf      bytes.Buffer
	reserved int
	commits  int
}

func (l *reserveLog) Write(p []byte) (int, error) { return l.buf.Write(p) }
func (l *reserveLog) Reserve(n int)               { l.reserved += n }
func (l *reserveLog) Commit()                     { l.commits++ }

func (t *sysT) State() string {
	c := &t.s.CPU
	return digest(c.PC, c.RK, c.SP, c.RA, c.RX, c.RY, c.RAl, c.RAh, c.Flags(), c.AllCycles, c.Stopped, sha1.Sum(t.s.WRAM[:0x3000]))
}

// ---- cpu65c816.CPU on its own bus

type cpuT struct {
	b   *bus.Bus
	c   *cpu65c816.CPU
	ram []byte
	v   int
	n   int
}

func newCPU(v, n int) *cpuT {
	t := &cpuT{ram: make([]byte, 0x10000), v: v, n: n}
	t.b, _ = bus.New()
	if err := t.b.Attach(memory.NewRAM(t.ram, 0), "ram", 0, 0xFFFF); err != nil {
		panic(err)
	}
	code, _, _ := program(v)
	copy(t.ram[0x8000+0x100*v:], code)
	t.c, _ = cpu65c816.New(t.b)
	t.c.SP = 0x01FF
	t.c.PC = uint16(0x8000 + 0x100*v)
	return t
}
func (t *cpuT) Kind() string { return "cpu" }
func (t *cpuT) NumOps() int  { return t.n }
func (t *cpuT) Do(i int) string {
	return safely(func() string {
		var tr []byte
		cy := 0
		for k := 0; k < 7+i; k++ {
			tr = t.c.DisassembleCurrentPC(tr)
			n, _ := t.c.Step()
			cy += n
		}
		f := t.c.Flags()
		t.c.SetFlags(f)
		if i == 1 {
			t.c.TriggerIRQ()
		}
		// every opcode, disassembled and stepped, under every width mode x {native, emulation} x
		// {flags clear, flags set} x {no interrupt, NMI, IRQ pending on a few}: all branches of the
		// instruction functions, both stack disciplines, decimal arithmetic in both widths
		saved := *t.c
		h := sha1.New()
		for mode := 0; mode < 16; mode++ {
			for op := 0; op < 256; op++ {
				base := 0x9000 + 8*op
				t.ram[base], t.ram[base+1], t.ram[base+2], t.ram[base+3] = byte(op), byte(0x10+t.v), 0x20, 0x00
				t.c.PC, t.c.RK, t.c.RDBR, t.c.SP, t.c.RD = uint16(base), 0, 0, 0x01F0, uint16(mode&1)
				t.c.E = 0
				fl := byte(mode&3) << 4
				if mode&4 != 0 {
					fl |= 0xCF
				}
				t.c.SetFlags(fl)
				if mode&8 != 0 {
					t.c.E = 1
					t.c.SetFlags(fl)
				}
				t.c.Interrupt = 0
				if op%64 == 1+t.v {
					t.c.Interrupt = byte(2 + mode&1)
				}
				line := t.c.DisassembleCurrentPC(nil)
				n, st := safeStep(t.c.Step)
				fmt.Fprintf(h, "%s%d%v%04x%04x;", line, n, st, t.c.PC, t.c.RA)
				t.c.Stopped = false
			}
		}
		t.c.Reset()
		fmt.Fprintf(h, "%04x", t.c.PC)
		*t.c = saved
		tr = append(tr, h.Sum(nil)...)
		dump := make([]byte, 0x20)
		n := t.b.EaDump(uint32(0x8000+0x100*t.v)+1, uint32(0x8000+0x100*t.v)+0x1A, dump)
		return digest(string(tr), cy, f, n, dump)
	})
}
func (t *cpuT) State() string {
	c := t.c
	return digest(c.PC, c.RK, c.SP, c.RA, c.RX, c.RY, c.RAl, c.RAh, c.Flags(), c.AllCycles, sha1.Sum(t.ram[:0x200]))
}

// ---- cpualt.CPU

type altT struct {
	c   *cpualt.CPU
	ram []byte
	v   int
	n   int
}

func newAlt(v, n int) *altT {
	t := &altT{ram: make([]byte, 0x10000), c: &cpualt.CPU{}, v: v, n: n}
	t.c.Init()
	t.c.Bus.AttachReader(0, 0xFFFF, func(a uint32) uint8 { return t.ram[a&0xFFFF] })
	t.c.Bus.AttachWriter(0, 0xFFFF, func(a uint32, b uint8) { t.ram[a&0xFFFF] = b })
	code, _, _ := program(v)
	copy(t.ram[0x8000+0x100*v:], code)
	t.c.SP = 0x01FF
	t.c.PC = uint16(0x8000 + 0x100*v)
	return t
}
func (t *altT) Kind() string { return "alt" }
func (t *altT) NumOps() int  { return t.n }
func (t *altT) Do(i int) string {
	return safely(func() string {
		var tr bytes.Buffer
		cy := 0
		for k := 0; k < 7+i; k++ {
			t.c.DisassembleCurrentPC(&tr)
			tr.WriteString(t.c.Disassemble(t.c.PC))
			n, _ := t.c.Step()
			cy += n
		}
		pc, k, dbr, sp, d, fl0, ra, rx, ry, ral, rah, rxl, ryl, e0 := t.c.PC, t.c.RK, t.c.RDBR, t.c.SP, t.c.RD, t.c.Flags(), t.c.RA, t.c.RX, t.c.RY, t.c.RAl, t.c.RAh, t.c.RXl, t.c.RYl, t.c.E
		ac := t.c.AllCycles
		for mode := 0; mode < 16; mode++ {
			for op := 0; op < 256; op++ {
				base := 0x9000 + 8*op
				t.ram[base], t.ram[base+1], t.ram[base+2], t.ram[base+3] = byte(op), byte(0x10+t.v), 0x20, 0x00
				t.c.PC, t.c.RK, t.c.RDBR, t.c.SP, t.c.RD = uint16(base), 0, 0, 0x01F0, uint16(mode&1)
				t.c.E = 0
				fl := byte(mode&3) << 4
				if mode&4 != 0 {
					fl |= 0xCF
				}
				t.c.SetFlags(fl)
				if mode&8 != 0 {
					t.c.E = 1
					t.c.SetFlags(fl)
				}
				t.c.Interrupt = 0
				if op%64 == 1+t.v {
					t.c.Interrupt = byte(2 + mode&1)
				}
				if op%97 == 0 {
					t.c.DisassemblePreviousPC(&tr)
					tr.WriteString(t.c.Disassemble(t.c.PC))
				}
				t.c.DisassembleCurrentPC(&tr)
				n, st := safeStep(t.c.Step)
				fmt.Fprintf(&tr, "%d%v%04x%04x;", n, st, t.c.PC, t.c.RA)
				t.c.Stopped = false
			}
		}
		t.c.I = 0
		t.c.TriggerIRQ()
		t.c.Reset()
		b := &t.c.Bus
		b.Write8(0x40, byte(t.v))
		b.Write16(0x41, uint16(0x1234+t.v))
		b.Write24(0x43, uint32(0x563412+t.v))
		fmt.Fprintf(&tr, "%x %x %x %x %x;", b.Read8(0x40), b.Read16(0x41), b.Read24(0x43), b.EaRead(0x40), t.c.PC)
		b.EaWrite(0x46, 9)
		var other cpualt.CPU
		other.InitFrom(t.c)
		fmt.Fprintf(&tr, "%x;", other.PC)
		t.c.E = e0
		t.c.SetFlags(fl0)
		t.c.Interrupt, t.c.Stopped, t.c.AllCycles = 0, false, ac
		t.c.PC, t.c.RK, t.c.RDBR, t.c.SP, t.c.RD, t.c.RA, t.c.RX, t.c.RY, t.c.RAl, t.c.RAh, t.c.RXl, t.c.RYl = pc, k, dbr, sp, d, ra, rx, ry, ral, rah, rxl, ryl
		return digest(tr.String(), cy)
	})
}
func (t *altT) State() string {
	c := t.c
	return digest(c.PC, c.RK, c.SP, c.RA, c.RX, c.RY, c.RAl, c.RAh, c.Flags(), c.AllCycles, sha1.Sum(t.ram[:0x200]))
}

// ---- asm.Emitter

type asmT struct {
	e *asm.Emitter
	v int
	n int
}

func newAsm(v, n int) *asmT {
	t := &asmT{e: asm.NewEmitter(make([]byte, 0x200), true), v: v, n: n}
	t.e.SetBase(uint32(0x008000 + 0x1000*v))
	return t
}
func (t *asmT) Kind() string { return "asm" }
func (t *asmT) NumOps() int  { return t.n }
func (t *asmT) listings() string {
	var a, b bytes.Buffer
	_ = t.e.WriteTextTo(&a)
	_ = t.e.WriteHexTo(&b)
	return a.String() + b.String()
}
func (t *asmT) Do(i int) string {
	return safely(func() string {
		e := t.e
		switch i % 3 {
		case 0:
			e.Comment(fmt.Sprintf("thread %d", t.v))
			e.SEP(0x30)
			e.LDA_imm8_b(uint8(0x40 + t.v))
			e.Label(fmt.Sprintf("loop%d", t.v))
			e.STA_abs_x(uint16(0x0D00 + t.v))
			e.EmitBytes(bytes.Repeat([]byte{byte(0xA0 + t.v)}, 17+t.v))
			e.BNE(fmt.Sprintf("loop%d", t.v))
			e.BRA(fmt.Sprintf("out%d", t.v))
			e.REP(0x20)
			e.LDA_imm16_w(uint16(0x1200 + t.v))
			e.AssumeSEP(0x10)
			e.LDX_imm8_b(uint8(t.v))
			e.MVN(uint8(0x7E+t.v), 0x7F)
			e.LDA_long(uint32(0x7EF340 + t.v))
			e.JMP_indirect(uint16(0xFFEA + t.v))
			e.WDM(uint8(t.v))
			// every emitting method once on a scratch emitter (whatever its width guard says)
			sc := asm.NewEmitter(make([]byte, 0x400), true)
			sc.SetBase(uint32(0x7E0000 + 0x100*t.v))
			rv := reflect.ValueOf(sc)
			for mi := 0; mi < rv.NumMethod(); mi++ {
				name := rv.Type().Method(mi).Name
				for _, p := range []asm.Flags{0x00, 0x30} {
					sc.AssumeREP(0x30)
					sc.AssumeSEP(p)
					func() {
						defer func() { _ = recover() }()
						switch f := rv.Method(mi).Interface().(type) {
						case func():
							f()
						case func(uint8):
							f(uint8(0x40 + t.v))
						case func(int8):
							f(int8(t.v))
						case func(uint16):
							f(uint16(0x1230 + t.v))
						case func(uint32):
							f(uint32(0x7E1230 + t.v))
						case func(uint8, uint8):
							f(uint8(t.v), 0x7F)
						case func(uint8, uint8, uint8):
							f(uint8(t.v), 0x80, 0x7E)
						case func(string):
							if name != "Label" {
								f("scratch")
							}
						}
					}()
				}
			}
			var sb bytes.Buffer
			_ = sc.WriteTextTo(&sb)
			_ = sc.WriteHexTo(&sb)
			return digest(e.Len(), e.PC(), e.IsM16bit(), e.IsX16bit(), e.GetBase(), e.Cap(), t.listings(), sc.Bytes(), sb.String())
		case 1:
			c := e.Clone(make([]byte, 0x80))
			c.JSL(uint32(0x7E0000 + t.v))
			c.Label(fmt.Sprintf("out%d", t.v))
			c.JMP_abs(fmt.Sprintf("loop%d", t.v))
			e.Append(c)
			return digest(e.Len(), e.PC(), t.listings())
		default:
			err := e.Finalize()
			return digest(err, e.Bytes(), t.listings())
		}
	})
}
func (t *asmT) State() string {
	l1, ok1 := t.e.GetLabel(fmt.Sprintf("loop%d", t.v))
	l2, ok2 := t.e.GetLabel(fmt.Sprintf("out%d", t.v))
	return digest(t.e.Bytes(), t.e.PC(), t.e.Flags(), l1, ok1, l2, ok2)
}

// ---- asm.Emitter instances DERIVED from one source emitter (Clone / Append): each derived emitter is its
// owner's object from then on. Instances come in pairs: the even variant builds the source, the odd one
// that follows derives from the same source. The source carries dangling references to a label that is
// still undefined (1, 3 and 5 of them: reference lists whose length is below their capacity).

var (
	derivedMu  sync.Mutex // harness bookkeeping only (pairs up the two constructors)
	derivedSrc *asm.Emitter
	siblingSrc *asm.Emitter
	appendSrc  *asm.Emitter
	windowArr  []byte
)

func buildDerivedSource() *asm.Emitter {
	s := asm.NewEmitter(make([]byte, 0x100), true)
	s.SetBase(0x7E8000)
	s.Comment("shared prologue")
	s.SEP(0x20)
	s.BNE("fwd1")
	for i := 0; i < 3; i++ {
		s.BEQ("fwd3")
		s.JMP_abs("far3")
	}
	for i := 0; i < 5; i++ {
		s.BRA("fwd5")
		s.JMP_abs("far5")
	}
	s.NOP()
	return s
}

type asmdT struct {
	e    *asm.Emitter
	v    int
	n    int
	kind string
}

func newAsmDerived(v, n int) *asmdT {
	derivedMu.Lock()
	if v%2 == 0 || derivedSrc == nil {
		derivedSrc = buildDerivedSource()
	}
	src := derivedSrc
	derivedMu.Unlock()
	t := &asmdT{v: v, n: n}
	if v%2 == 0 {
		t.e = src.Clone(make([]byte, 0x200))
	} else {
		t.e = asm.NewEmitter(make([]byte, 0x200), true)
		t.e.SetBase(0x7E8000)
		t.e.Append(src)
	}
	return t
}
func (t *asmdT) Kind() string {
	if t.kind != "" {
		return t.kind
	}
	return "asmd"
}
func (t *asmdT) NumOps() int  { return t.n }
func (t *asmdT) Do(i int) string {
	return safely(func() string {
		e := t.e
		switch i % 3 {
		case 0:
			// one more reference to each inherited list, different per instance
			for k := 0; k <= t.v%2; k++ {
				e.LDA_imm8_b(uint8(0x10*t.v + k))
			}
			e.BNE("fwd1")
			e.BEQ("fwd3")
			e.BRA("fwd5")
			e.JMP_abs("far3")
			e.JMP_abs("far5")
			return digest(e.Len(), e.PC())
		case 1:
			e.NOP()
			for _, l := range []string{"fwd1", "fwd3", "fwd5", "far3", "far5"} {
				e.Label(l)
				e.NOP()
			}
			return digest(e.Len(), e.PC())
		default:
			err := e.Finalize()
			var a, b bytes.Buffer
			_ = e.WriteTextTo(&a)
			_ = e.WriteHexTo(&b)
			return digest(err, e.Bytes(), a.String(), b.String())
		}
	})
}
func (t *asmdT) State() string {
	l1, ok1 := t.e.GetLabel("fwd1")
	l2, ok2 := t.e.GetLabel("far5")
	return digest(t.e.Bytes(), t.e.PC(), t.e.Flags(), l1, ok1, l2, ok2)
}

// ---- two sibling clones of one source emitter (both alive at once, each owned by its goroutine)

func newAsmSibling(v, n int) *asmdT {
	derivedMu.Lock()
	if v%2 == 0 || siblingSrc == nil {
		siblingSrc = buildDerivedSource()
	}
	src := siblingSrc
	derivedMu.Unlock()
	return &asmdT{v: v, n: n, kind: "asmc", e: src.Clone(make([]byte, 0x200))}
}

// ---- one pre-assembled snippet (a common prologue) Appended into two separately created emitters

func newAsmAppender(v, n int) *asmdT {
	derivedMu.Lock()
	if v%2 == 0 || appendSrc == nil {
		appendSrc = buildDerivedSource()
	}
	src := appendSrc
	derivedMu.Unlock()
	t := &asmdT{v: v, n: n, kind: "asma"}
	t.e = asm.NewEmitter(make([]byte, 0x200), true)
	t.e.SetBase(0x7E8000)
	t.e.Append(src)
	return t
}

// ---- two emitters whose targets are adjacent windows of one array (an image patched in two places):
// each program is one instruction too long for its 16-byte window, the last call has to be refused

type asmwT struct {
	e   *asm.Emitter
	win []byte
	v   int
	n   int
}

func newAsmWindow(v, n int) *asmwT {
	derivedMu.Lock()
	if v%2 == 0 || windowArr == nil {
		windowArr = make([]byte, 0x200)
	}
	arr := windowArr
	derivedMu.Unlock()
	lo := 0x100 + 0x10*(v%2)
	t := &asmwT{v: v, n: n, win: arr[lo : lo+0x10]}
	t.e = asm.NewEmitter(t.win, true)
	t.e.SetBase(0x008000 + uint32(lo))
	return t
}
func (t *asmwT) Kind() string { return "asmw" }
func (t *asmwT) NumOps() int  { return t.n }
func (t *asmwT) Do(i int) string {
	return safely(func() string {
		e := t.e
		switch i % 3 {
		case 0:
			for k := 0; k < 15; k++ {
				if t.v%2 == 0 {
					e.NOP()
				} else {
					e.DEX()
				}
			}
			return digest(e.Len(), e.PC())
		case 1:
			refused := safely(func() string { e.JSL(0x7E1234 + uint32(t.v)); return "accepted" })
			return digest(refused, e.Len(), e.PC(), e.Bytes())
		default:
			err := e.Finalize()
			var a bytes.Buffer
			_ = e.WriteTextTo(&a)
			return digest(err, e.Bytes(), a.String(), t.win)
		}
	})
}
func (t *asmwT) State() string { return digest(t.e.Bytes(), t.win, t.e.PC(), t.e.Len()) }

// ---- snes.ROM

type romT struct {
	r *snes.ROM
	v int
	n int
}

func newROM(v, n int) *romT {
	img := make([]byte, 0x10000)
	for i := range img {
		img[i] = byte(i*(3+2*v) + v)
	}
	switch v % 3 { // header version 3, 2 and 1
	case 0:
		img[0x7FB0+0x2A] = 0x33
	case 1:
		img[0x7FB0+0x2A], img[0x7FB0+0x24] = 0x01, 0x00
	default:
		img[0x7FB0+0x2A], img[0x7FB0+0x24] = 0x01, 0x20
	}
	// plausible vectors, checksum pair and map mode so that Score takes its branches
	copy(img[0x7FB0+0x34:], []byte{0x00, 0x90, 0x10, 0x90, 0x20, 0x90, 0x30, 0x90})
	copy(img[0x7FB0+0x44:], []byte{0x00, 0x90, 0x00, 0x00, 0x10, 0x90, 0x20, 0x90, 0x00, 0x80, 0x30, 0x90})
	img[0x7FB0+0x2C], img[0x7FB0+0x2D], img[0x7FB0+0x2E], img[0x7FB0+0x2F] = 0x34, 0x12, 0xCB, 0xED
	img[0x7FB0+0x25] = byte(0x20 + v)
	r, err := snes.NewROM(fmt.Sprintf("rom%d", v), img)
	if err != nil {
		panic(err)
	}
	return &romT{r: r, v: v, n: n}
}
func (t *romT) Kind() string { return "rom" }
func (t *romT) NumOps() int  { return t.n }
func (t *romT) Do(i int) string {
	return safely(func() string {
		r := t.r
		switch i % 3 {
		case 0:
			p := make([]byte, 8)
			n1, e1 := r.BusReader(uint32(0x007000 + t.v)).Read(p) // below $8000: the shared always-error reader
			n2, e2 := io.ReadFull(r.BusReader(uint32(0x00FFE0+t.v)), p)
			return digest(n1, e1, n2, e2, p)
		case 1:
			n1, e1 := r.BusWriter(uint32(0x003000 + t.v)).Write([]byte{1, 2, 3})
			n2, e2 := r.BusWriter(uint32(0x01FFF0 + t.v)).Write([]byte{byte(t.v), 0xAA, 0x55})
			return digest(n1, e1, n2, e2)
		default:
			e1 := r.ReadHeader()
			r.Header.NativeVectors.NMI = uint16(0x8000 + t.v)
			e2 := r.WriteHeader()
			var b bytes.Buffer
			e3 := r.Header.WriteHeader(&b)
			return digest(e1, e2, e3, b.Bytes(), r.Header.HeaderVersion(), r.Header.Score(0x7FB0), r.Header.Score(0xFFB0), r.Header.Score(0x40FFB0), r.Header.ROMSizeBytes()&0xFFFF, r.Header.RAMSizeBytes()&0xFFFF, snes.RegionNames[r.Header.DestinationCode], snes.RegionNames[snes.Region(t.v)])
		}
	})
}
func (t *romT) State() string { return digest(sha1.Sum(t.r.Contents), t.r.Header) }

// ---- stateless functions

type fnT struct {
	v   int
	n   int
	acc string
}

func (t *fnT) Kind() string { return "fn" }
func (t *fnT) NumOps() int  { return t.n }
func (t *fnT) Do(i int) string {
	return safely(func() string {
		h := sha1.New()
		base := uint32(0x2000*i + 0x111*t.v)
		for _, f := range []func(uint32) (uint32, error){lorom.BusAddressToPak, lorom.PakAddressToBus, hirom.BusAddressToPak, hirom.PakAddressToBus,
			exhirom.BusAddressToPak, exhirom.PakAddressToBus, sa1rom.BusAddressToPak, sa1rom.PakAddressToBus} {
			for a := base; a < 1<<24; a += 0x0F3F1 {
				p, err := f(a)
				fmt.Fprintf(h, "%x %v;", p, err)
			}
		}
		for c := 0; c < 0x8000; c += 0x111 + t.v {
			col := color15.Color(c)
			r, g, b := col.ToRGB()
			fmt.Fprintf(h, "%x %d %d %d %d;", col.MulDiv(uint8(3+t.v), uint8(2+i)), r, g, b, col.Luminosity())
		}
		for a := base; a < 1<<24; a += 0x10101 {
			fmt.Fprintf(h, "%x;", util.BankToLinear(a))
		}
		d := hex.EncodeToString(h.Sum(nil)[:8])
		t.acc = digest(t.acc, d)
		return d
	})
}
func (t *fnT) State() string { return t.acc }
