package ref65816

// Reference WDC 65C816, native mode (E=0) only. One instruction per Step;
// block moves execute one byte per Step.

type Mem interface {
	Read(a uint32) byte
	Write(a uint32, v byte)
}

const (
	FC = 1 << iota
	FZ
	FI
	FD
	FX
	FM
	FV
	FN
)

type State struct {
	C, X, Y, S, D, PC uint16
	DBR, K, P         byte
	E                 bool
	Stopped           bool
}

// Care describes outputs the programming model leaves unspecified.
type Care struct {
	IgnoreA bool // accumulator result unspecified (invalid BCD)
	IgnoreP byte // unspecified flag bits
	Loose   bool // WAI/STP: only PC (WAI) / Stopped (STP) meaningful
}

type ea struct{ lo, hi uint32 }

// Quirks are named, switchable deviations from the WDC model. Each reproduces exactly one
// known wrong behaviour of the implementation so that it can be recognised by signature.
type Quirks uint32

const (
	// QDecimalLegacy: decimal-mode ADC/SBC computed as binary sum (SBC: a + ^d + c) followed by a
	// per-nibble "+6 if nibble > 9" adjustment without inter-nibble carries (defect F4).
	QDecimalLegacy Quirks = 1 << iota
)

type cpu struct {
	s    *State
	m    Mem
	care Care
	q    Quirks
}

// legacyDecimal is the implementation's decimal arithmetic (both interpreters share it).
func (c *cpu) legacyDecimal(a, d uint32, w int) {
	cin := uint32(0)
	if c.flag(FC) {
		cin = 1
	}
	mask := uint32(1)<<uint(w) - 1
	sign := uint32(1) << uint(w-1)
	sum := a + d + cin
	for i := 0; i < w; i += 4 {
		if sum&(0xF<<uint(i)) > 0x9<<uint(i) {
			sum += 0x6 << uint(i)
		}
	}
	c.setf(FC, sum > mask)
	c.setf(FV, (a^d)&sign == 0 && (a^sum)&sign != 0)
	c.setA(sum&mask, w)
	c.nz(sum&mask, w)
}

func (c *cpu) rd(a uint32) byte    { return c.m.Read(a & 0xFFFFFF) }
func (c *cpu) wr(a uint32, v byte) { c.m.Write(a&0xFFFFFF, v) }
func (c *cpu) op(i uint16) byte    { return c.rd(uint32(c.s.K)<<16 | uint32(c.s.PC+i)) }
func (c *cpu) op16() uint16        { return uint16(c.op(1)) | uint16(c.op(2))<<8 }
func (c *cpu) m8() bool            { return c.s.P&FM != 0 }
func (c *cpu) x8() bool            { return c.s.P&FX != 0 }
func (c *cpu) flag(f byte) bool    { return c.s.P&f != 0 }
func (c *cpu) setf(f byte, on bool) {
	if on {
		c.s.P |= f
	} else {
		c.s.P &^= f
	}
}
func bank0(a uint16) uint32 { return uint32(a) }

func (c *cpu) nz(v uint32, w int) {
	if w == 8 {
		c.setf(FZ, v&0xFF == 0)
		c.setf(FN, v&0x80 != 0)
	} else {
		c.setf(FZ, v&0xFFFF == 0)
		c.setf(FN, v&0x8000 != 0)
	}
}

func (c *cpu) rd16b0(a uint16) uint16 { return uint16(c.rd(bank0(a))) | uint16(c.rd(bank0(a+1)))<<8 }

func lin(a uint32) ea { return ea{a & 0xFFFFFF, (a + 1) & 0xFFFFFF} }
func dpw(a uint16) ea { return ea{uint32(a), uint32(a + 1)} }

// address computes the operand location for data-accessing modes.
func (c *cpu) address(mode Mode) ea {
	s := c.s
	dbr := uint32(s.DBR) << 16
	switch mode {
	case ImM, ImX, Im8, Im16:
		k := uint32(s.K) << 16
		return ea{k | uint32(s.PC+1), k | uint32(s.PC+2)}
	case Dp:
		return dpw(s.D + uint16(c.op(1)))
	case Dpx:
		return dpw(s.D + uint16(c.op(1)) + s.X)
	case Dpy:
		return dpw(s.D + uint16(c.op(1)) + s.Y)
	case Idp:
		return lin(dbr | uint32(c.rd16b0(s.D+uint16(c.op(1)))))
	case Idx:
		return lin(dbr | uint32(c.rd16b0(s.D+uint16(c.op(1))+s.X)))
	case Idy:
		return lin((dbr | uint32(c.rd16b0(s.D+uint16(c.op(1))))) + uint32(s.Y))
	case Ildp, Ildy:
		p := s.D + uint16(c.op(1))
		a := uint32(c.rd(bank0(p))) | uint32(c.rd(bank0(p+1)))<<8 | uint32(c.rd(bank0(p+2)))<<16
		if mode == Ildy {
			a += uint32(s.Y)
		}
		return lin(a)
	case Sr:
		return dpw(s.S + uint16(c.op(1)))
	case Isy:
		return lin((dbr | uint32(c.rd16b0(s.S+uint16(c.op(1))))) + uint32(s.Y))
	case Abs:
		return lin(dbr | uint32(c.op16()))
	case Abx:
		return lin((dbr | uint32(c.op16())) + uint32(s.X))
	case Aby:
		return lin((dbr | uint32(c.op16())) + uint32(s.Y))
	case Lng:
		return lin(uint32(c.op16()) | uint32(c.op(3))<<16)
	case Lnx:
		return lin((uint32(c.op16()) | uint32(c.op(3))<<16) + uint32(s.X))
	}
	panic("address: mode")
}

func (c *cpu) load(e ea, w int) uint32 {
	v := uint32(c.rd(e.lo))
	if w == 16 {
		v |= uint32(c.rd(e.hi)) << 8
	}
	return v
}
func (c *cpu) store(e ea, w int, v uint32) {
	c.wr(e.lo, byte(v))
	if w == 16 {
		c.wr(e.hi, byte(v>>8))
	}
}

func (c *cpu) push8(v byte)    { c.wr(bank0(c.s.S), v); c.s.S-- }
func (c *cpu) push16(v uint16) { c.push8(byte(v >> 8)); c.push8(byte(v)) }
func (c *cpu) pull8() byte     { c.s.S++; return c.rd(bank0(c.s.S)) }
func (c *cpu) pull16() uint16  { lo := c.pull8(); hi := c.pull8(); return uint16(hi)<<8 | uint16(lo) }

func (c *cpu) xrule() {
	if c.x8() {
		c.s.X &= 0xFF
		c.s.Y &= 0xFF
	}
}

func (c *cpu) setA(v uint32, w int) {
	if w == 8 {
		c.s.C = c.s.C&0xFF00 | uint16(v&0xFF)
	} else {
		c.s.C = uint16(v)
	}
}
func (c *cpu) getA(w int) uint32 {
	if w == 8 {
		return uint32(c.s.C & 0xFF)
	}
	return uint32(c.s.C)
}

func validBCD(v uint32, w int) bool {
	for i := 0; i < w; i += 4 {
		if (v>>uint(i))&0xF > 9 {
			return false
		}
	}
	return true
}

func (c *cpu) adc(d uint32, w int) {
	a := c.getA(w)
	cin := uint32(0)
	if c.flag(FC) {
		cin = 1
	}
	mask := uint32(1)<<uint(w) - 1
	sign := uint32(1) << uint(w-1)
	if !c.flag(FD) {
		t := a + d + cin
		c.setf(FC, t > mask)
		c.setf(FV, (^(a^d))&(a^t)&sign != 0)
		c.setA(t&mask, w)
		c.nz(t&mask, w)
		return
	}
	if c.q&QDecimalLegacy != 0 {
		c.legacyDecimal(a, d, w)
		return
	}
	c.care.IgnoreP |= FV
	if !validBCD(a, w) || !validBCD(d, w) {
		c.care.IgnoreA = true
		c.care.IgnoreP |= FN | FV | FZ | FC
		return
	}
	var res uint32
	carry := cin
	for i := 0; i < w; i += 4 {
		s := (a>>uint(i))&0xF + (d>>uint(i))&0xF + carry
		if s > 9 {
			s -= 10
			carry = 1
		} else {
			carry = 0
		}
		res |= s << uint(i)
	}
	c.setf(FC, carry == 1)
	c.setA(res, w)
	c.nz(res, w)
}

func (c *cpu) sbc(d uint32, w int) {
	mask := uint32(1)<<uint(w) - 1
	if !c.flag(FD) {
		c.adc((^d)&mask, w)
		return
	}
	a := c.getA(w)
	if c.q&QDecimalLegacy != 0 {
		c.legacyDecimal(a, (^d)&mask, w)
		return
	}
	c.care.IgnoreP |= FV
	if !validBCD(a, w) || !validBCD(d, w) {
		c.care.IgnoreA = true
		c.care.IgnoreP |= FN | FV | FZ | FC
		return
	}
	borrow := 0
	if !c.flag(FC) {
		borrow = 1
	}
	var res uint32
	for i := 0; i < w; i += 4 {
		s := int((a>>uint(i))&0xF) - int((d>>uint(i))&0xF) - borrow
		if s < 0 {
			s += 10
			borrow = 1
		} else {
			borrow = 0
		}
		res |= uint32(s) << uint(i)
	}
	c.setf(FC, borrow == 0)
	c.setA(res, w)
	c.nz(res, w)
}

func (c *cpu) cmp(r uint32, d uint32, w int) {
	mask := uint32(1)<<uint(w) - 1
	t := (r - d) & mask
	c.setf(FC, r >= d)
	c.nz(t, w)
}

func (c *cpu) shift(mn string, v uint32, w int) uint32 {
	mask := uint32(1)<<uint(w) - 1
	top := uint32(1) << uint(w-1)
	cin := uint32(0)
	if c.flag(FC) {
		cin = 1
	}
	var r uint32
	switch mn {
	case "ASL":
		c.setf(FC, v&top != 0)
		r = (v << 1) & mask
	case "LSR":
		c.setf(FC, v&1 != 0)
		r = v >> 1
	case "ROL":
		c.setf(FC, v&top != 0)
		r = ((v << 1) | cin) & mask
	case "ROR":
		c.setf(FC, v&1 != 0)
		r = v>>1 | cin<<uint(w-1)
	case "INC":
		r = (v + 1) & mask
	case "DEC":
		r = (v - 1) & mask
	}
	c.nz(r, w)
	return r
}

// Step executes one instruction per the WDC model.
func Step(s *State, m Mem) Care { return StepQ(s, m, 0) }

// StepQ executes one instruction with the given quirks enabled.
func StepQ(s *State, m Mem, q Quirks) Care {
	c := &cpu{s: s, m: m, q: q}
	opc := c.op(0)
	e := Table[opc]
	mw, xw := 16, 16
	if c.m8() {
		mw = 8
	}
	if c.x8() {
		xw = 8
	}
	length := uint16(Length(opc, c.m8(), c.x8()))
	next := s.PC + length
	mn, mode := e.Mn, e.Mode

	switch mn {
	// ---- loads / stores
	case "LDA":
		v := c.load(c.address(mode), mw)
		c.setA(v, mw)
		c.nz(v, mw)
	case "LDX":
		v := c.load(c.address(mode), xw)
		s.X = uint16(v)
		c.nz(v, xw)
	case "LDY":
		v := c.load(c.address(mode), xw)
		s.Y = uint16(v)
		c.nz(v, xw)
	case "STA":
		c.store(c.address(mode), mw, c.getA(mw))
	case "STX":
		c.store(c.address(mode), xw, uint32(s.X))
	case "STY":
		c.store(c.address(mode), xw, uint32(s.Y))
	case "STZ":
		c.store(c.address(mode), mw, 0)
	// ---- ALU
	case "ORA", "AND", "EOR":
		d := c.load(c.address(mode), mw)
		a := c.getA(mw)
		switch mn {
		case "ORA":
			a |= d
		case "AND":
			a &= d
		case "EOR":
			a ^= d
		}
		c.setA(a, mw)
		c.nz(a, mw)
	case "ADC":
		c.adc(c.load(c.address(mode), mw), mw)
	case "SBC":
		c.sbc(c.load(c.address(mode), mw), mw)
	case "CMP":
		c.cmp(c.getA(mw), c.load(c.address(mode), mw), mw)
	case "CPX":
		c.cmp(uint32(s.X), c.load(c.address(mode), xw), xw)
	case "CPY":
		c.cmp(uint32(s.Y), c.load(c.address(mode), xw), xw)
	case "BIT":
		d := c.load(c.address(mode), mw)
		c.setf(FZ, c.getA(mw)&d == 0)
		if mode != ImM {
			c.setf(FN, d&(1<<uint(mw-1)) != 0)
			c.setf(FV, d&(1<<uint(mw-2)) != 0)
		}
	case "TSB", "TRB":
		a := c.address(mode)
		d := c.load(a, mw)
		acc := c.getA(mw)
		c.setf(FZ, acc&d == 0)
		if mn == "TSB" {
			c.store(a, mw, d|acc)
		} else {
			c.store(a, mw, d&^acc)
		}
	case "ASL", "LSR", "ROL", "ROR", "INC", "DEC":
		if mode == Acc {
			c.setA(c.shift(mn, c.getA(mw), mw), mw)
		} else {
			a := c.address(mode)
			c.store(a, mw, c.shift(mn, c.load(a, mw), mw))
		}
	case "INX":
		s.X = uint16(c.shift("INC", uint32(s.X), xw))
	case "INY":
		s.Y = uint16(c.shift("INC", uint32(s.Y), xw))
	case "DEX":
		s.X = uint16(c.shift("DEC", uint32(s.X), xw))
	case "DEY":
		s.Y = uint16(c.shift("DEC", uint32(s.Y), xw))
	// ---- transfers
	case "TAX", "TAY":
		v := uint32(s.C)
		if xw == 8 {
			v &= 0xFF
		}
		if mn == "TAX" {
			s.X = uint16(v)
		} else {
			s.Y = uint16(v)
		}
		c.nz(v, xw)
	case "TXA", "TYA":
		v := uint32(s.X)
		if mn == "TYA" {
			v = uint32(s.Y)
		}
		c.setA(v, mw)
		c.nz(v, mw)
	case "TXY":
		s.Y = s.X
		c.nz(uint32(s.Y), xw)
	case "TYX":
		s.X = s.Y
		c.nz(uint32(s.X), xw)
	case "TSX":
		v := uint32(s.S)
		if xw == 8 {
			v &= 0xFF
		}
		s.X = uint16(v)
		c.nz(v, xw)
	case "TXS":
		s.S = s.X
	case "TCS":
		s.S = s.C
	case "TSC":
		s.C = s.S
		c.nz(uint32(s.C), 16)
	case "TCD":
		s.D = s.C
		c.nz(uint32(s.D), 16)
	case "TDC":
		s.C = s.D
		c.nz(uint32(s.C), 16)
	case "XBA":
		s.C = s.C>>8 | s.C<<8
		c.nz(uint32(s.C&0xFF), 8)
	// ---- stack
	case "PHA":
		if mw == 8 {
			c.push8(byte(s.C))
		} else {
			c.push16(s.C)
		}
	case "PHX":
		if xw == 8 {
			c.push8(byte(s.X))
		} else {
			c.push16(s.X)
		}
	case "PHY":
		if xw == 8 {
			c.push8(byte(s.Y))
		} else {
			c.push16(s.Y)
		}
	case "PLA":
		var v uint32
		if mw == 8 {
			v = uint32(c.pull8())
		} else {
			v = uint32(c.pull16())
		}
		c.setA(v, mw)
		c.nz(v, mw)
	case "PLX", "PLY":
		var v uint32
		if xw == 8 {
			v = uint32(c.pull8())
		} else {
			v = uint32(c.pull16())
		}
		if mn == "PLX" {
			s.X = uint16(v)
		} else {
			s.Y = uint16(v)
		}
		c.nz(v, xw)
	case "PHP":
		c.push8(s.P)
	case "PLP":
		s.P = c.pull8()
		c.xrule()
	case "PHB":
		c.push8(s.DBR)
	case "PLB":
		s.DBR = c.pull8()
		c.nz(uint32(s.DBR), 8)
	case "PHK":
		c.push8(s.K)
	case "PHD":
		c.push16(s.D)
	case "PLD":
		s.D = c.pull16()
		c.nz(uint32(s.D), 16)
	case "PEA":
		c.push16(c.op16())
	case "PEI":
		c.push16(c.rd16b0(s.D + uint16(c.op(1))))
	case "PER":
		c.push16(s.PC + 3 + c.op16())
	// ---- flow
	case "BPL", "BMI", "BVC", "BVS", "BCC", "BCS", "BNE", "BEQ", "BRA":
		var t bool
		switch mn {
		case "BPL":
			t = !c.flag(FN)
		case "BMI":
			t = c.flag(FN)
		case "BVC":
			t = !c.flag(FV)
		case "BVS":
			t = c.flag(FV)
		case "BCC":
			t = !c.flag(FC)
		case "BCS":
			t = c.flag(FC)
		case "BNE":
			t = !c.flag(FZ)
		case "BEQ":
			t = c.flag(FZ)
		case "BRA":
			t = true
		}
		disp := c.op(1) // the displacement byte is fetched whether or not the branch is taken
		if t {
			next = s.PC + 2 + uint16(int16(int8(disp)))
		}
	case "BRL":
		next = s.PC + 3 + c.op16()
	case "JMP":
		switch mode {
		case Abs:
			next = c.op16()
		case Iab:
			next = c.rd16b0(c.op16())
		case Iax:
			p := c.op16() + s.X
			k := uint32(s.K) << 16
			next = uint16(c.rd(k|uint32(p))) | uint16(c.rd(k|uint32(p+1)))<<8
		}
	case "JML":
		if mode == Lng {
			next = c.op16()
			s.K = c.op(3)
		} else { // [abs]
			p := c.op16()
			next = c.rd16b0(p)
			s.K = c.rd(bank0(p + 2))
		}
	case "JSR":
		if mode == Abs {
			t := c.op16()
			c.push16(s.PC + 2)
			next = t
		} else {
			lo, hi := c.op(1), c.op(2) // operand fetched before the push on hardware
			c.push16(s.PC + 2)
			p := (uint16(lo) | uint16(hi)<<8) + s.X
			k := uint32(s.K) << 16
			next = uint16(c.rd(k|uint32(p))) | uint16(c.rd(k|uint32(p+1)))<<8
		}
	case "JSL":
		t := c.op16()
		b := c.op(3)
		c.push8(s.K)
		c.push16(s.PC + 3)
		next = t
		s.K = b
	case "RTS":
		next = c.pull16() + 1
	case "RTL":
		next = c.pull16() + 1
		s.K = c.pull8()
	case "RTI":
		s.P = c.pull8()
		c.xrule()
		next = c.pull16()
		s.K = c.pull8()
	case "BRK", "COP":
		c.push8(s.K)
		c.push16(s.PC + 2)
		c.push8(s.P)
		c.setf(FI, true)
		c.setf(FD, false)
		s.K = 0
		if mn == "BRK" {
			next = c.rd16b0(0xFFE6)
		} else {
			next = c.rd16b0(0xFFE4)
		}
	// ---- flags
	case "CLC":
		c.setf(FC, false)
	case "SEC":
		c.setf(FC, true)
	case "CLI":
		c.setf(FI, false)
	case "SEI":
		c.setf(FI, true)
	case "CLD":
		c.setf(FD, false)
	case "SED":
		c.setf(FD, true)
	case "CLV":
		c.setf(FV, false)
	case "REP":
		s.P &^= c.op(1)
		c.xrule()
	case "SEP":
		s.P |= c.op(1)
		c.xrule()
	case "XCE":
		carry := c.flag(FC)
		c.setf(FC, s.E)
		s.E = carry
		if s.E {
			s.P |= FM | FX
			c.xrule()
			s.S = 0x0100 | s.S&0xFF
		}
	// ---- block moves
	case "MVN", "MVP":
		dst, src := c.op(1), c.op(2)
		s.DBR = dst
		v := c.rd(uint32(src)<<16 | uint32(s.X))
		c.wr(uint32(dst)<<16|uint32(s.Y), v)
		if mn == "MVN" {
			s.X++
			s.Y++
		} else {
			s.X--
			s.Y--
		}
		c.xrule()
		s.C--
		if s.C != 0xFFFF {
			next = s.PC
		}
	case "WDM":
		_ = c.op(1) // the reserved opcode has a one-byte operand, which the processor fetches
	case "NOP":
	case "WAI":
		c.care.Loose = true
	case "STP":
		c.care.Loose = true
		s.Stopped = true
	default:
		panic("unhandled " + mn)
	}
	s.PC = next
	return c.care
}
