package ref65816

import "strings"

// Addressing modes of the reference decoder.
type Mode uint8

const (
	Imp Mode = iota
	Acc
	ImM  // immediate, m-width
	ImX  // immediate, x-width
	Im8  // immediate, always 8 bit
	Im16 // immediate, always 16 bit (PEA)
	Dp
	Dpx
	Dpy
	Idp  // (dp)
	Idx  // (dp,X)
	Idy  // (dp),Y
	Ildp // [dp]
	Ildy // [dp],Y
	Sr
	Isy // (sr,S),Y
	Abs
	Abx
	Aby
	Lng
	Lnx
	Iab // (abs)
	Iax // (abs,X)
	Ial // [abs]
	Rel
	Rll
	Blk
)

var modeNames = map[string]Mode{"imp": Imp, "acc": Acc, "imM": ImM, "imX": ImX, "im8": Im8, "im16": Im16,
	"dp": Dp, "dpx": Dpx, "dpy": Dpy, "idp": Idp, "idx": Idx, "idy": Idy, "ildp": Ildp, "ildy": Ildy,
	"sr": Sr, "isy": Isy, "abs": Abs, "abx": Abx, "aby": Aby, "lng": Lng, "lnx": Lnx, "iab": Iab, "iax": Iax, "ial": Ial,
	"rel": Rel, "rll": Rll, "blk": Blk}

type Entry struct {
	Mn   string
	Mode Mode
}

// Typed from the WDC opcode matrix, row by row.
var rows = [16]string{
	"BRK:imp ORA:idx COP:im8 ORA:sr TSB:dp ORA:dp ASL:dp ORA:ildp PHP:imp ORA:imM ASL:acc PHD:imp TSB:abs ORA:abs ASL:abs ORA:lng",
	"BPL:rel ORA:idy ORA:idp ORA:isy TRB:dp ORA:dpx ASL:dpx ORA:ildy CLC:imp ORA:aby INC:acc TCS:imp TRB:abs ORA:abx ASL:abx ORA:lnx",
	"JSR:abs AND:idx JSL:lng AND:sr BIT:dp AND:dp ROL:dp AND:ildp PLP:imp AND:imM ROL:acc PLD:imp BIT:abs AND:abs ROL:abs AND:lng",
	"BMI:rel AND:idy AND:idp AND:isy BIT:dpx AND:dpx ROL:dpx AND:ildy SEC:imp AND:aby DEC:acc TSC:imp BIT:abx AND:abx ROL:abx AND:lnx",
	"RTI:imp EOR:idx WDM:im8 EOR:sr MVP:blk EOR:dp LSR:dp EOR:ildp PHA:imp EOR:imM LSR:acc PHK:imp JMP:abs EOR:abs LSR:abs EOR:lng",
	"BVC:rel EOR:idy EOR:idp EOR:isy MVN:blk EOR:dpx LSR:dpx EOR:ildy CLI:imp EOR:aby PHY:imp TCD:imp JML:lng EOR:abx LSR:abx EOR:lnx",
	"RTS:imp ADC:idx PER:rll ADC:sr STZ:dp ADC:dp ROR:dp ADC:ildp PLA:imp ADC:imM ROR:acc RTL:imp JMP:iab ADC:abs ROR:abs ADC:lng",
	"BVS:rel ADC:idy ADC:idp ADC:isy STZ:dpx ADC:dpx ROR:dpx ADC:ildy SEI:imp ADC:aby PLY:imp TDC:imp JMP:iax ADC:abx ROR:abx ADC:lnx",
	"BRA:rel STA:idx BRL:rll STA:sr STY:dp STA:dp STX:dp STA:ildp DEY:imp BIT:imM TXA:imp PHB:imp STY:abs STA:abs STX:abs STA:lng",
	"BCC:rel STA:idy STA:idp STA:isy STY:dpx STA:dpx STX:dpy STA:ildy TYA:imp STA:aby TXS:imp TXY:imp STZ:abs STA:abx STZ:abx STA:lnx",
	"LDY:imX LDA:idx LDX:imX LDA:sr LDY:dp LDA:dp LDX:dp LDA:ildp TAY:imp LDA:imM TAX:imp PLB:imp LDY:abs LDA:abs LDX:abs LDA:lng",
	"BCS:rel LDA:idy LDA:idp LDA:isy LDY:dpx LDA:dpx LDX:dpy LDA:ildy CLV:imp LDA:aby TSX:imp TYX:imp LDY:abx LDA:abx LDX:aby LDA:lnx",
	"CPY:imX CMP:idx REP:im8 CMP:sr CPY:dp CMP:dp DEC:dp CMP:ildp INY:imp CMP:imM DEX:imp WAI:imp CPY:abs CMP:abs DEC:abs CMP:lng",
	"BNE:rel CMP:idy CMP:idp CMP:isy PEI:dp CMP:dpx DEC:dpx CMP:ildy CLD:imp CMP:aby PHX:imp STP:imp JML:ial CMP:abx DEC:abx CMP:lnx",
	"CPX:imX SBC:idx SEP:im8 SBC:sr CPX:dp SBC:dp INC:dp SBC:ildp INX:imp SBC:imM NOP:imp XBA:imp CPX:abs SBC:abs INC:abs SBC:lng",
	"BEQ:rel SBC:idy SBC:idp SBC:isy PEA:im16 SBC:dpx INC:dpx SBC:ildy SED:imp SBC:aby PLX:imp XCE:imp JSR:iax SBC:abx INC:abx SBC:lnx",
}

var Table [256]Entry

func init() {
	for r, row := range rows {
		f := strings.Fields(row)
		if len(f) != 16 {
			panic("bad row")
		}
		for c, e := range f {
			p := strings.Split(e, ":")
			m, ok := modeNames[p[1]]
			if !ok {
				panic("bad mode " + p[1])
			}
			Table[r*16+c] = Entry{p[0], m}
		}
	}
}

// Length of the instruction in bytes for the given m/x flags (1 = 8 bit).
func Length(op byte, m8, x8 bool) int {
	switch Table[op].Mode {
	case Imp, Acc:
		return 1
	case ImM:
		if m8 {
			return 2
		}
		return 3
	case ImX:
		if x8 {
			return 2
		}
		return 3
	case Im8, Dp, Dpx, Dpy, Idp, Idx, Idy, Ildp, Ildy, Sr, Isy, Rel:
		return 2
	case Im16, Abs, Abx, Aby, Iab, Iax, Ial, Rll, Blk:
		return 3
	case Lng, Lnx:
		return 4
	}
	panic("mode")
}
