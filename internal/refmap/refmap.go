// Package refmap holds the bus-decoding region tables of the four cartridge
// mappers as data (DESIGN.md Appendix C), transcribed from the region comments of
// mapping/*/mapping.go and the rows of the mapper tests. It says nothing about Pak->Bus.
package refmap

import "fmt"

type Class int

const (
	Unmapped Class = iota
	ROM
	SRAM
	WRAM
)

func (c Class) String() string { return [...]string{"unmapped", "ROM", "SRAM", "WRAM"}[c] }

// ClassBase is the FX Pak Pro address at which each class window starts.
var ClassBase = [...]uint32{0, 0x000000, 0xE00000, 0xF50000}

// ClassOfPak classifies an FX Pak Pro address by window ($F7-$FF mirror counted as WRAM).
func ClassOfPak(p uint32) Class {
	switch {
	case p < 0xE00000:
		return ROM
	case p < 0xF00000:
		return SRAM
	case p < 0xF50000:
		return Unmapped
	default:
		return WRAM
	}
}

// StrictClassOfPak is the window test of property C05: WRAM is $F50000-$F6FFFF only.
func StrictClassOfPak(p uint32) Class {
	switch {
	case p < 0xE00000:
		return ROM
	case p < 0xF00000:
		return SRAM
	case p >= 0xF50000 && p < 0xF70000:
		return WRAM
	}
	return Unmapped
}

type Region struct {
	BankLo, BankHi uint32 // inclusive
	OffLo, OffHi   uint32 // inclusive
	Class          Class
	Lin            func(b, o uint32) uint32
	Desc           string
}

type Table struct {
	Name    string
	Regions []Region
}

func (t *Table) Lookup(bus uint32) (Class, uint32) {
	b, o := bus>>16, bus&0xFFFF
	for i := range t.Regions {
		r := &t.Regions[i]
		if b >= r.BankLo && b <= r.BankHi && o >= r.OffLo && o <= r.OffHi {
			return r.Class, ClassBase[r.Class] + r.Lin(b, o)
		}
	}
	return Unmapped, 0
}

func lo32k(b, o uint32) uint32 { return (b&0x3F)<<15 | o&0x7FFF }
func wlow(b, o uint32) uint32  { return o }
func wfull(b, o uint32) uint32 { return (b-0x7E)<<16 | o }

var LoROM = Table{"lorom", []Region{
	{0x7E, 0x7F, 0x0000, 0xFFFF, WRAM, wfull, "$7E-$7F WRAM"},
	{0x00, 0xFF, 0x8000, 0xFFFF, ROM, lo32k, "all banks except $7E,$7F upper half: ROM"},
	{0x00, 0x6F, 0x0000, 0x1FFF, WRAM, wlow, "$00-$6F low 8K WRAM"},
	{0x80, 0xEF, 0x0000, 0x1FFF, WRAM, wlow, "$80-$EF low 8K WRAM"},
	{0x70, 0x7D, 0x0000, 0x7FFF, SRAM, func(b, o uint32) uint32 { return (b-0x70)<<15 | o }, "$70-$7D SRAM"},
	{0xF0, 0xFF, 0x0000, 0x7FFF, SRAM, func(b, o uint32) uint32 { return (b-0xF0)<<15 | o }, "$F0-$FF SRAM"},
}}

var HiROM = Table{"hirom", []Region{
	{0x7E, 0x7F, 0x0000, 0xFFFF, WRAM, wfull, "$7E-$7F WRAM"},
	{0x40, 0x7D, 0x0000, 0xFFFF, ROM, func(b, o uint32) uint32 { return (b&0x3F)<<16 | o }, "$40-$7D ROM"},
	{0xC0, 0xFF, 0x0000, 0xFFFF, ROM, func(b, o uint32) uint32 { return (b&0x3F)<<16 | o }, "$C0-$FF ROM"},
	{0x00, 0x3F, 0x8000, 0xFFFF, ROM, lo32k, "$00-$3F upper half ROM (32K packing)"},
	{0x80, 0xBF, 0x8000, 0xFFFF, ROM, lo32k, "$80-$BF upper half ROM (32K packing)"},
	{0x20, 0x3F, 0x6000, 0x7FFF, SRAM, func(b, o uint32) uint32 { return (b&0x1F)<<13 | o&0x1FFF }, "$20-$3F SRAM"},
	{0xA0, 0xBF, 0x6000, 0x7FFF, SRAM, func(b, o uint32) uint32 { return (b&0x1F)<<13 | o&0x1FFF }, "$A0-$BF SRAM"},
	{0x00, 0x3F, 0x0000, 0x1FFF, WRAM, wlow, "$00-$3F low 8K WRAM"},
	{0x80, 0xBF, 0x0000, 0x1FFF, WRAM, wlow, "$80-$BF low 8K WRAM"},
}}

var ExHiROM = Table{"exhirom", []Region{
	{0x7E, 0x7F, 0x0000, 0xFFFF, WRAM, wfull, "$7E-$7F WRAM"},
	{0xC0, 0xFF, 0x0000, 0xFFFF, ROM, func(b, o uint32) uint32 { return (b&0x3F)<<16 | o }, "$C0-$FF ROM area 1"},
	{0x40, 0x7D, 0x0000, 0xFFFF, ROM, func(b, o uint32) uint32 { return 0x400000 + ((b&0x3F)<<16 | o) }, "$40-$7D ROM area 2"},
	{0x80, 0xBF, 0x8000, 0xFFFF, ROM, lo32k, "$80-$BF upper half ROM area 1"},
	{0x00, 0x3F, 0x8000, 0xFFFF, ROM, func(b, o uint32) uint32 { return 0x400000 + lo32k(b, o) }, "$00-$3F upper half ROM area 2/3"},
	{0xA0, 0xBF, 0x6000, 0x7FFF, SRAM, func(b, o uint32) uint32 { return (b-0xA0)<<13 | o&0x1FFF }, "$A0-$BF SRAM"},
	{0x00, 0x3F, 0x0000, 0x1FFF, WRAM, wlow, "$00-$3F low 8K WRAM"},
	{0x80, 0xBF, 0x0000, 0x1FFF, WRAM, wlow, "$80-$BF low 8K WRAM"},
}}

var SA1 = Table{"sa1rom", []Region{
	{0x7E, 0x7F, 0x0000, 0xFFFF, WRAM, wfull, "$7E-$7F WRAM"},
	{0xC0, 0xFF, 0x0000, 0xFFFF, ROM, func(b, o uint32) uint32 { return (b-0xC0)<<16 | o }, "$C0-$FF ROM"},
	{0x80, 0xBF, 0x8000, 0xFFFF, ROM, func(b, o uint32) uint32 { return (b-0x80+0x40)<<15 | o&0x7FFF }, "$80-$BF upper half ROM EX/FX"},
	{0x00, 0x3F, 0x8000, 0xFFFF, ROM, func(b, o uint32) uint32 { return b<<15 | o&0x7FFF }, "$00-$3F upper half ROM CX/DX"},
	{0x00, 0x3F, 0x6000, 0x7FFF, SRAM, func(b, o uint32) uint32 { return o - 0x6000 }, "$00-$3F BW-RAM image"},
	{0x80, 0xBF, 0x6000, 0x7FFF, SRAM, func(b, o uint32) uint32 { return o - 0x6000 }, "$80-$BF BW-RAM image"},
	{0x40, 0x43, 0x0000, 0xFFFF, SRAM, func(b, o uint32) uint32 { return (b-0x40)<<16 | o }, "$40-$43 BW-RAM"},
	{0x44, 0x4F, 0x0000, 0xFFFF, SRAM, func(b, o uint32) uint32 { return o & 0x1FFF }, "$44-$4F BW-RAM image"},
	{0x00, 0x3F, 0x0000, 0x1FFF, WRAM, wlow, "$00-$3F low 8K WRAM"},
	{0x80, 0xBF, 0x0000, 0x1FFF, WRAM, wlow, "$80-$BF low 8K WRAM"},
}}

// Validate asserts that rows of one table are pairwise disjoint (apart from the
// documented precedence of the $7E-$7F row, listed first) and that every linear
// position stays inside its class window. Returns an error describing the first problem.
func (t *Table) Validate() error {
	for i := range t.Regions {
		a := &t.Regions[i]
		for j := i + 1; j < len(t.Regions); j++ {
			b := &t.Regions[j]
			if a.BankLo <= b.BankHi && b.BankLo <= a.BankHi && a.OffLo <= b.OffHi && b.OffLo <= a.OffHi {
				// the only intended overlap: the "all banks upper half" LoROM row with $7E-$7F
				if i == 0 && t.Name == "lorom" && j == 1 {
					continue
				}
				return fmt.Errorf("%s: rows %q and %q overlap", t.Name, a.Desc, b.Desc)
			}
		}
		for _, b := range []uint32{a.BankLo, a.BankHi} {
			for _, o := range []uint32{a.OffLo, a.OffHi} {
				p := ClassBase[a.Class] + a.Lin(b, o)
				if StrictClassOfPak(p) != a.Class {
					return fmt.Errorf("%s: row %q leaves its class window at %02x:%04x -> %06x", t.Name, a.Desc, b, o, p)
				}
			}
		}
	}
	return nil
}
