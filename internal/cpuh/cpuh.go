// Package cpuh puts cpu65c816.CPU and cpualt.CPU behind one interface, each on a
// sparse, logging 16 MiB memory, so that explorers can drive them in lockstep with
// the reference model.
package cpuh

import (
	"bytes"
	"fmt"
	"io"
	"log"

	"github.com/alttpo/snes/emulator/bus"
	"github.com/alttpo/snes/emulator/cpu65c816"
	"github.com/alttpo/snes/emulator/cpualt"
)

func init() { log.SetOutput(io.Discard) }

type Cell struct {
	A uint32
	V byte
}

// Mem is a sparse memory image: a fixed hash of the address overridden by a short
// list of cells (planted bytes and writes, last one wins). It logs every access.
type Mem struct {
	Seed   uint32
	Ov     []Cell
	Reads  []uint32
	Writes []Cell
	Bad    bool // an access used an address >= 2^24
	// Misrouted: the bus handed an access to the memory object attached over ANOTHER 16-byte cell (the
	// whole space is mapped by two interleaved objects, even and odd cells, that share this image)
	Misrouted bool
	MisAddr   uint32
	inNested  bool
	// Charge, when set, is called by the memory objects on every access of the instruction (wait states)
	Charge func()
}

// cellProxy is one of the two memory objects the buses are populated with: it owns the 16-byte cells
// of one parity and forwards to the shared image, noting accesses that belong to the other object.
type cellProxy struct {
	// (the objects are attached BY VALUE, and the struct holds a slice and a func: like the library's own
	// memory.RAM their dynamic type is not comparable, so bus code must not compare memory objects)
	pad    []byte
	m      *Mem
	parity uint32
	// reenter: while serving an access the object makes a bus access of its own (as a device that
	// forwards a mirror, or DMA/MMIO hardware, would): the bus must not lose track of the outer access
	reenter func(a uint32)
}

// check notes an access that belongs to the other object and reports it; such an access is served with
// the complement of the byte (the two objects are different chips: what one holds at an address is not
// what the other holds), so that a misdirected access also shows in the architectural result
func (p cellProxy) check(a uint32) (foreign bool) {
	if a>>4&1 != p.parity {
		if !p.m.Misrouted {
			p.m.Misrouted, p.m.MisAddr = true, a
		}
		return true
	}
	return false
}
func (p cellProxy) nested(a uint32) {
	if p.reenter != nil && !p.m.inNested {
		p.m.inNested = true
		p.reenter(a&0xFFFFFF ^ 0x800010)
		p.m.inNested = false
	}
}
func (p cellProxy) Read(a uint32) byte {
	if p.m.inNested {
		return p.m.Peek(a) // the object's own access: not part of the instruction's access log
	}
	if p.m.Charge != nil {
		p.m.Charge() // slow memory: the object charges the CPU a wait state (its exported per-step cycle count)
	}
	foreign := p.check(a)
	v := p.m.Read(a)
	p.nested(a)
	if foreign {
		return ^v
	}
	return v
}
func (p cellProxy) Write(a uint32, v byte) {
	if p.m.inNested {
		return
	}
	if p.m.Charge != nil {
		p.m.Charge()
	}
	if p.check(a) {
		v = ^v
	}
	p.m.Write(a, v)
	p.nested(a)
}
func (p cellProxy) Shutdown()            {}
func (p cellProxy) Size() uint32         { return 0 }
func (p cellProxy) Clear()               {}
func (p cellProxy) Dump(a uint32) []byte { return nil }

func (m *Mem) Base(a uint32) byte {
	x := (a ^ m.Seed) * 2654435761
	return byte(x>>11) ^ byte(x>>19) ^ byte(x>>27)
}
func (m *Mem) Get(a uint32) (byte, bool) {
	for i := len(m.Ov) - 1; i >= 0; i-- {
		if m.Ov[i].A == a {
			return m.Ov[i].V, true
		}
	}
	return 0, false
}
func (m *Mem) Peek(a uint32) byte {
	if v, ok := m.Get(a); ok {
		return v
	}
	return m.Base(a)
}
func (m *Mem) Read(a uint32) byte {
	if a >= 1<<24 {
		m.Bad = true
	}
	m.Reads = append(m.Reads, a)
	return m.Peek(a)
}
func (m *Mem) Write(a uint32, v byte) {
	if a >= 1<<24 {
		m.Bad = true
	}
	m.Writes = append(m.Writes, Cell{a, v})
	m.Ov = append(m.Ov, Cell{a, v})
}
func (m *Mem) Shutdown()            {}
func (m *Mem) Size() uint32         { return 0 }
func (m *Mem) Clear()               {}
func (m *Mem) Dump(a uint32) []byte { return nil }

// Plant sets a cell unless it is already planted; returns false if it was.
func (m *Mem) Plant(a uint32, v byte) bool {
	if _, ok := m.Get(a); ok {
		return false
	}
	m.Ov = append(m.Ov, Cell{a, v})
	return true
}

// Set overrides a cell unconditionally (environment write, not logged).
func (m *Mem) Set(a uint32, v byte) { m.Ov = append(m.Ov, Cell{a, v}) }

func (m *Mem) ResetFrom(from *Mem) {
	m.Seed = from.Seed
	m.Ov = append(m.Ov[:0], from.Ov...)
	m.ClearLog()
}
func (m *Mem) ClearLog() {
	m.Reads = m.Reads[:0]
	m.Writes = m.Writes[:0]
	m.Bad = false
	m.Misrouted = false
}

// FinalWrites collapses a write log to last-write-wins, sorted insertion not needed.
func FinalWrites(w []Cell) map[uint32]byte {
	r := make(map[uint32]byte, len(w))
	for _, c := range w {
		r[c.A] = c.V
	}
	return r
}

// SameWrites compares two write logs as last-write-wins sets without allocating for short logs.
func SameWrites(a, b []Cell) bool {
	last := func(w []Cell, addr uint32) (byte, bool) {
		for i := len(w) - 1; i >= 0; i-- {
			if w[i].A == addr {
				return w[i].V, true
			}
		}
		return 0, false
	}
	for _, c := range a {
		va, _ := last(a, c.A)
		vb, ok := last(b, c.A)
		if !ok || va != vb {
			return false
		}
	}
	for _, c := range b {
		if _, ok := last(a, c.A); !ok {
			return false
		}
	}
	return true
}

// Raw is every exported register/flag field of an interpreter, including both copies of
// the dual-representation registers.
type Raw struct {
	PC, SP, RA, RX, RY, RD uint16
	RAh, RAl, RXl, RYl     byte
	RDBR, RK               byte
	P                      byte // nvmxdizc assembled from the eight flag bytes
	E                      byte
	Stopped                bool
	Interrupt              byte
	AllCycles              uint64
	// Dirt is a harness annotation, not interpreter state: when non-zero, Load fills the interpreter's
	// NON-architectural fields (per-step cycle counter, previous PC/bank, WDM argument, StepInfo scratch,
	// the bus's debug/open-bus fields) with junk instead of zeroes; Save echoes it back. Nothing a Step
	// does may depend on what an earlier Step left in those fields.
	Dirt byte
	// Charge: the memory objects add one to the interpreter's per-step cycle count on every access
	Charge bool
}

func (r Raw) String() string {
	return fmt.Sprintf("PC=%02x:%04x SP=%04x RA=%04x(h%02x l%02x) RX=%04x(l%02x) RY=%04x(l%02x) D=%04x DBR=%02x P=%02x E=%d stp=%v int=%d cyc=%d",
		r.RK, r.PC, r.SP, r.RA, r.RAh, r.RAl, r.RX, r.RXl, r.RY, r.RYl, r.RD, r.RDBR, r.P, r.E, r.Stopped, r.Interrupt, r.AllCycles)
}

// Machine is one interpreter instance on its own logging memory.
type Machine interface {
	Name() string
	Mem() *Mem
	Load(r Raw)
	Save() Raw
	// Step executes one Step under recover().
	Step() (cycles int, stopped bool, panicked interface{})
	Reset() (panicked interface{})
	// Disasm renders the trace line for the current PC (nil if it panicked).
	Disasm() (line []byte, panicked interface{})
	SetOnWDM(f func(byte))
	SetOnPC(m map[uint32]func())
	// TriggerIRQ calls the interpreter's own TriggerIRQ (masked by the I flag at the time of the call).
	TriggerIRQ()
}

// ---- primary interpreter

type Pri struct {
	B *bus.Bus
	// C is the CPU object in use: cInit (made by New) or cFrom (made by InitFrom from cInit); Load selects
	// cFrom for start states with Dirt != 0, so both ways of creating an interpreter are exercised
	C            *cpu65c816.CPU
	cInit, cFrom *cpu65c816.CPU
	M            *Mem
	dirt         byte
	autoHooks    bool // the hooks in place were installed by Load for a dirty start state
}

func NewPri() *Pri {
	b, _ := bus.New()
	m := &Mem{}
	re := func(a uint32) { b.EaRead(a) }
	px := [2]cellProxy{{nil, m, 0, re}, {nil, m, 1, re}}
	for cell := uint32(0); cell < 1<<20; cell++ {
		if err := b.Attach(px[cell&1], "cell", cell<<4, cell<<4|15); err != nil {
			panic(err)
		}
	}
	c, _ := cpu65c816.New(b)
	// the InitFrom object is derived from a CPU written as a struct literal (never passed through New/Init):
	// all three ways of making a CPU that work on the library are in use
	// ... and that literal is bound to ANOTHER (empty) bus, like a CPU taken from another machine or a
	// restored register snapshot: InitFrom's bus argument decides where the new CPU lives
	ob, _ := bus.New()
	lit := &cpu65c816.CPU{Bus: ob}
	c2 := &cpu65c816.CPU{}
	c2.InitFrom(lit, b)
	return &Pri{B: b, C: c, cInit: c, cFrom: c2, M: m}
}
func (p *Pri) Name() string { return "cpu65c816" }
func (p *Pri) Mem() *Mem    { return p.M }
func (p *Pri) Load(r Raw) {
	p.C = p.cInit
	if r.Dirt != 0 {
		p.C = p.cFrom
	}
	c := p.C
	c.StepInfo = cpu65c816.StepInfo{}
	c.Cycles, c.PRK, c.PPC, c.WDM, c.B = 0, 0, 0, 0, 0
	c.PC, c.SP, c.RA, c.RX, c.RY, c.RD = r.PC, r.SP, r.RA, r.RX, r.RY, r.RD
	c.RAh, c.RAl, c.RXl, c.RYl, c.RDBR, c.RK = r.RAh, r.RAl, r.RXl, r.RYl, r.RDBR, r.RK
	c.C, c.Z, c.I, c.D, c.X, c.M, c.V, c.N = r.P&1, r.P>>1&1, r.P>>2&1, r.P>>3&1, r.P>>4&1, r.P>>5&1, r.P>>6&1, r.P>>7&1
	c.E, c.Stopped, c.Interrupt, c.AllCycles = r.E, r.Stopped, r.Interrupt, r.AllCycles
	p.dirt = r.Dirt
	p.M.Charge = nil
	if r.Charge {
		p.M.Charge = func() { c.Cycles++ }
	}
	p.B.EA, p.B.Write = 0, false
	if p.autoHooks {
		p.cFrom.OnWDM, p.cFrom.OnPC, p.autoHooks = nil, nil, false
	}
	if r.Dirt != 0 && c.OnWDM == nil && c.OnPC == nil {
		// observers installed: OnPC does nothing; OnWDM does nothing (Dirt 1) or raises an interrupt request
		// WHILE the Step is running (Dirt 2: a request raised during a Step is pending for the next one; both
		// interpreters must keep it)
		c.OnWDM = func(byte) {}
		if r.Dirt == 2 {
			c.OnWDM = func(byte) { c.TriggerIRQ() }
		}
		c.OnPC = map[uint32]func(){uint32(r.RK)<<16 | uint32(r.PC): func() {}}
		p.autoHooks = true
	}
	if r.Dirt != 0 {
		c.Cycles, c.PPC, c.PRK, c.WDM = 0x5A, 0xA5A5, 0x5A, 0xA5
		c.StepInfo = cpu65c816.StepInfo{EA: 0xA5A5A5, Addr: 0x5A5A, Mode: 0x7F}
		p.B.EA, p.B.Write = 0xA5A5A5, true
	}
}
func (p *Pri) Save() Raw {
	c := p.C
	return Raw{c.PC, c.SP, c.RA, c.RX, c.RY, c.RD, c.RAh, c.RAl, c.RXl, c.RYl, c.RDBR, c.RK,
		c.C&1 | c.Z&1<<1 | c.I&1<<2 | c.D&1<<3 | c.X&1<<4 | c.M&1<<5 | c.V&1<<6 | c.N&1<<7, c.E, c.Stopped, c.Interrupt, c.AllCycles, p.dirt, p.M.Charge != nil}
}
func (p *Pri) Step() (cy int, st bool, pn interface{}) {
	defer func() { pn = recover() }()
	cy, st = p.C.Step()
	return
}
func (p *Pri) Reset() (pn interface{}) {
	defer func() { pn = recover() }()
	p.C.Reset()
	return
}
func (p *Pri) Disasm() (o []byte, pn interface{}) {
	defer func() { pn = recover() }()
	o = p.C.DisassembleCurrentPC(nil)
	return
}

// DisasmInto renders into a buffer that already holds text (the accumulate loop
// trace = cpu.DisassembleCurrentPC(trace)): the result is the old content followed by the line.
func (p *Pri) DisasmInto(buf []byte) (o []byte, pn interface{}) {
	defer func() { pn = recover() }()
	o = p.C.DisassembleCurrentPC(buf)
	return
}
func (p *Alt) DisasmInto(buf []byte) (o []byte, pn interface{}) {
	defer func() { pn = recover() }()
	b := bytes.NewBuffer(buf) // the alternative interpreter's tracer writes to an io.Writer: one that holds text already
	p.C.DisassembleCurrentPC(b)
	o = b.Bytes()
	return
}
func (p *Pri) TriggerIRQ()                 { p.C.TriggerIRQ() }
func (p *Pri) SetOnWDM(f func(byte))       { p.cInit.OnWDM, p.cFrom.OnWDM = f, f }
func (p *Pri) SetOnPC(m map[uint32]func()) { p.cInit.OnPC, p.cFrom.OnPC = m, m }
func (p *Pri) FlagBytes() [8]byte          { c := p.C; return [8]byte{c.C, c.Z, c.I, c.D, c.X, c.M, c.V, c.N} }

// ---- alternative interpreter

type Alt struct {
	C            *cpualt.CPU // in use: cInit (Init) or cFrom (InitFrom(cInit)), selected by Load like Pri
	cInit, cFrom *cpualt.CPU
	M            *Mem
	dirt         byte
	autoHooks    bool // the hooks in place were installed by Load for a dirty start state
}

func NewAlt() *Alt {
	c := &cpualt.CPU{}
	c.Init()
	m := &Mem{}
	re := func(a uint32) { c.Bus.EaRead(a) }
	px := [2]cellProxy{{nil, m, 0, re}, {nil, m, 1, re}}
	for cell := uint32(0); cell < 1<<20; cell++ {
		c.Bus.AttachReader(cell<<4, cell<<4|15, px[cell&1].Read)
		c.Bus.AttachWriter(cell<<4, cell<<4|15, px[cell&1].Write)
	}
	c2 := &cpualt.CPU{}
	c2.InitFrom(c) // copies the populated bus tables too
	return &Alt{C: c, cInit: c, cFrom: c2, M: m}
}
func (p *Alt) Name() string { return "cpualt" }
func (p *Alt) Mem() *Mem    { return p.M }
func (p *Alt) Load(r Raw) {
	p.C = p.cInit
	if r.Dirt != 0 {
		p.C = p.cFrom
	}
	c := p.C
	c.PC, c.SP, c.RA, c.RX, c.RY, c.RD = r.PC, r.SP, r.RA, r.RX, r.RY, r.RD
	c.RAh, c.RAl, c.RXl, c.RYl, c.RDBR, c.RK = r.RAh, r.RAl, r.RXl, r.RYl, r.RDBR, r.RK
	c.C, c.Z, c.I, c.D, c.X, c.M, c.V, c.N = r.P&1, r.P>>1&1, r.P>>2&1, r.P>>3&1, r.P>>4&1, r.P>>5&1, r.P>>6&1, r.P>>7&1
	c.E, c.Stopped, c.Interrupt, c.AllCycles = r.E, r.Stopped, r.Interrupt, r.AllCycles
	c.B, c.WDM, c.PPC, c.PRK, c.Cycles = 0, 0, 0, 0, 0
	c.StepInfo = cpualt.StepInfo{}
	c.Bus.M = 0
	p.dirt = r.Dirt
	p.M.Charge = nil
	if r.Charge {
		p.M.Charge = func() { c.Cycles++ }
	}
	if p.autoHooks {
		p.cFrom.OnWDM, p.cFrom.OnPC, p.autoHooks = nil, nil, false
	}
	if r.Dirt != 0 && c.OnWDM == nil && c.OnPC == nil {
		c.OnWDM = func(byte) {}
		if r.Dirt == 2 {
			c.OnWDM = func(byte) { c.TriggerIRQ() }
		}
		c.OnPC = map[uint32]func(){uint32(r.RK)<<16 | uint32(r.PC): func() {}}
		p.autoHooks = true
	}
	if r.Dirt != 0 {
		c.Cycles, c.PPC, c.PRK, c.WDM = 0x5A, 0xA5A5, 0x5A, 0xA5
		c.StepInfo = cpualt.StepInfo{EA: 0xA5A5A5, Addr: 0x5A5A, Mode: 0x7F}
		c.Bus.M = 0xA5
	}
}
func (p *Alt) Save() Raw {
	c := p.C
	return Raw{c.PC, c.SP, c.RA, c.RX, c.RY, c.RD, c.RAh, c.RAl, c.RXl, c.RYl, c.RDBR, c.RK,
		c.C&1 | c.Z&1<<1 | c.I&1<<2 | c.D&1<<3 | c.X&1<<4 | c.M&1<<5 | c.V&1<<6 | c.N&1<<7, c.E, c.Stopped, c.Interrupt, c.AllCycles, p.dirt, p.M.Charge != nil}
}
func (p *Alt) Step() (cy int, st bool, pn interface{}) {
	defer func() { pn = recover() }()
	cy, st = p.C.Step()
	return
}
func (p *Alt) Reset() (pn interface{}) {
	defer func() { pn = recover() }()
	p.C.Reset()
	return
}
func (p *Alt) Disasm() (o []byte, pn interface{}) {
	defer func() { pn = recover() }()
	var b bytes.Buffer
	p.C.DisassembleCurrentPC(&b)
	o = b.Bytes()
	return
}
func (p *Alt) TriggerIRQ()                 { p.C.TriggerIRQ() }
func (p *Alt) SetOnWDM(f func(byte))       { p.cInit.OnWDM, p.cFrom.OnWDM = f, f }
func (p *Alt) SetOnPC(m map[uint32]func()) { p.cInit.OnPC, p.cFrom.OnPC = m, m }
func (p *Alt) FlagBytes() [8]byte          { c := p.C; return [8]byte{c.C, c.Z, c.I, c.D, c.X, c.M, c.V, c.N} }
