// Package report collects what a check explored and found, prints the
// VIOLATION / KNOWN-FINDING lines of the interface and writes evidence/<id>.json.
package report

import (
	"crypto/sha1"
	"encoding/hex"
	"encoding/json"
	"fmt"
	"os"
	"path/filepath"
	"sort"
	"strconv"
	"strings"
	"sync"
	"time"
)

// Root is /verif unless VERIF_ROOT says otherwise.
func Root() string {
	if r := os.Getenv("VERIF_ROOT"); r != "" {
		return r
	}
	return "/verif"
}

type finding struct {
	Property  string `json:"property"`
	Signature string `json:"signature"`
	Status    string `json:"status"` // "known" | "fixed"
	Commit    string `json:"commit,omitempty"`
	What      string `json:"what"`
	Line      string `json:"line,omitempty"`
}

type sigInfo struct {
	count  int
	what   string
	replay string
	first  interface{}
	size   int
}

// Run is one execution of one property check.
type Run struct {
	ID    string
	Tier  string
	Seed  int64
	Level string

	mu          sync.Mutex
	start       time.Time
	cov         map[string]interface{}
	counters    map[string]*int64
	samples     []interface{}
	assumptions []string
	sigs        map[string]*sigInfo
	sigOrder    []string
	known       map[string]finding
	exhaustive  bool
	maxSamples  int
	distinct    map[string]struct{}

	// GoTest, when set, renders a recorded case as a plain Go unit test that uses only alttpo/snes
	// API (no explorer); it is written next to the replay file as <replay>.go.txt.
	GoTest func(c interface{}, sig, what string) string

	// Confirm, when set, re-executes a recorded case on its own (single-threaded, fresh objects) and says
	// whether it still violates the property. The explorations run many library objects in parallel; a
	// violation that exists only while other objects are active is interference between instances (C18's
	// subject), not a violation of this property, and is listed in the evidence without raising the alarm.
	Confirm func(c interface{}) (violates bool, observed string)
}

func New(id, tier, level string) *Run {
	r := &Run{ID: id, Tier: tier, Level: level, start: time.Now(),
		cov: map[string]interface{}{}, sigs: map[string]*sigInfo{}, known: map[string]finding{},
		exhaustive: true, maxSamples: 12, distinct: map[string]struct{}{}}
	if s := os.Getenv("VERIF_SEED"); s != "" {
		if v, err := strconv.ParseInt(s, 10, 64); err == nil {
			r.Seed = v
		}
	}
	b, err := os.ReadFile(filepath.Join(Root(), "known_findings.json"))
	if err == nil {
		var f struct {
			Findings []finding `json:"findings"`
		}
		if err := json.Unmarshal(b, &f); err != nil {
			fmt.Println("cannot parse known_findings.json:", err)
			os.Exit(2)
		}
		for _, k := range f.Findings {
			if k.Property == id && k.Status == "known" {
				r.known[k.Signature] = k
			}
		}
	}
	return r
}

// Set records a coverage key.
func (r *Run) Set(k string, v interface{}) {
	r.mu.Lock()
	r.cov[k] = v
	r.mu.Unlock()
}

// Add adds to an integer coverage key.
func (r *Run) Add(k string, n int64) {
	r.mu.Lock()
	switch v := r.cov[k].(type) {
	case int64:
		r.cov[k] = v + n
	default:
		r.cov[k] = n
	}
	r.mu.Unlock()
}

func (r *Run) Get(k string) int64 {
	r.mu.Lock()
	defer r.mu.Unlock()
	if v, ok := r.cov[k].(int64); ok {
		return v
	}
	return 0
}

// Sample records an actual explored case (only the first few are kept).
func (r *Run) Sample(v interface{}) {
	r.mu.Lock()
	if len(r.samples) < r.maxSamples {
		r.samples = append(r.samples, v)
	}
	r.mu.Unlock()
}

func (r *Run) Assume(s string) {
	r.mu.Lock()
	r.assumptions = append(r.assumptions, s)
	r.mu.Unlock()
}

// Incomplete marks that some sub-space was cut short by an internal deadline or cap.
func (r *Run) Incomplete(why string) {
	r.mu.Lock()
	r.exhaustive = false
	l, _ := r.cov["incomplete"].([]string)
	r.cov["incomplete"] = append(l, why)
	r.mu.Unlock()
}

// Violation reports a case that breaks the property. sig identifies the exact
// wrong behaviour (alternative model / quirk set); "unexplained:<class>" when no
// alternative model reproduces it. Only the first case per signature is kept as replay.
func (r *Run) Violation(sig, what string, replay interface{}) {
	r.ViolationSized(sig, what, replay, 0)
}

// ViolationSized is Violation with a size (path length, number of calls ...): per signature the
// smallest case seen is the one kept as replay, so the recorded counterexample is the shortest.
func (r *Run) ViolationSized(sig, what string, replay interface{}, size int) {
	r.mu.Lock()
	defer r.mu.Unlock()
	s := r.sigs[sig]
	if s == nil {
		s = &sigInfo{what: what, first: replay, size: size}
		r.sigs[sig] = s
		r.sigOrder = append(r.sigOrder, sig)
	} else if size < s.size {
		s.what, s.first, s.size = what, replay, size
	}
	s.count++
}

// NViolations returns the number of distinct signatures seen so far.
func (r *Run) NSignatures() int {
	r.mu.Lock()
	defer r.mu.Unlock()
	return len(r.sigs)
}

func (r *Run) writeReplay(sig string, s *sigInfo) string {
	h := sha1.Sum([]byte(r.ID + "|" + sig))
	p := filepath.Join(Root(), "replays", r.ID+"-"+hex.EncodeToString(h[:6])+".json")
	doc := map[string]interface{}{"property": r.ID, "signature": sig, "what": s.what, "count": s.count, "case": s.first}
	b, _ := json.MarshalIndent(doc, "", " ")
	_ = os.MkdirAll(filepath.Dir(p), 0o755)
	_ = os.WriteFile(p, b, 0o644)
	if r.GoTest != nil {
		func() {
			defer func() { _ = recover() }()
			if src := r.GoTest(s.first, sig, s.what); src != "" {
				_ = os.WriteFile(p[:len(p)-5]+"_test.go.txt", []byte(src), 0o644)
			}
		}()
	}
	return p
}

// AtExit functions run at the start of Finish (profilers).
var AtExit []func()

// Finish writes the evidence file, prints verdict lines and exits.
func (r *Run) Finish() {
	for _, f := range AtExit {
		f()
	}
	r.mu.Lock()
	defer r.mu.Unlock()
	unexplained := 0
	knownSeen := 0
	sort.Strings(r.sigOrder)
	var vio, unconfirmed []map[string]interface{}
	for _, sig := range r.sigOrder {
		s := r.sigs[sig]
		if k, ok := r.known[sig]; ok {
			knownSeen++
			fmt.Printf("KNOWN-FINDING: property=%s %s [signature=%s cases=%d]\n", r.ID, k.What, sig, s.count)
			vio = append(vio, map[string]interface{}{"signature": sig, "known": true, "cases": s.count})
			continue
		}
		if r.Confirm != nil && s.first != nil && !strings.Contains(sig, "does-not-return") {
			ok, obs := true, ""
			func() {
				defer func() {
					if x := recover(); x != nil {
						ok, obs = true, fmt.Sprint("replay panicked: ", x)
					}
				}()
				ok, obs = r.Confirm(s.first)
			}()
			if !ok {
				fmt.Printf("  note: %s [signature=%s cases=%d] was observed during the parallel exploration but is NOT reproduced when its case runs alone (%s): interference between instances, not reported under %s\n", s.what, sig, s.count, obs, r.ID)
				unconfirmed = append(unconfirmed, map[string]interface{}{"signature": sig, "cases": s.count, "what": s.what, "alone": obs})
				continue
			}
		}
		unexplained++
		p := r.writeReplay(sig, s)
		fmt.Printf("  what: %s [signature=%s cases=%d]\n", s.what, sig, s.count)
		fmt.Printf("VIOLATION property=%s replay=%s\n", r.ID, p)
		vio = append(vio, map[string]interface{}{"signature": sig, "known": false, "cases": s.count, "replay": p})
	}
	cov := r.cov
	cov["samples"] = r.samples
	if _, ok := cov["exhaustive"]; !ok {
		cov["exhaustive"] = r.exhaustive
	}
	if len(vio) > 0 {
		cov["findings"] = vio
	}
	if len(unconfirmed) > 0 {
		cov["observed_only_under_parallel_load_not_reproduced_alone"] = unconfirmed
	}
	ev := map[string]interface{}{
		"property_id": r.ID, "tier": r.Tier, "seed": r.Seed, "level": r.Level,
		"coverage": cov, "assumptions": r.assumptions,
		"wall_s":     float64(time.Since(r.start).Milliseconds()) / 1000,
		"violations": unexplained, "known_findings_reproduced": knownSeen,
	}
	if r.assumptions == nil {
		ev["assumptions"] = []string{}
	}
	b, err := json.MarshalIndent(ev, "", " ")
	if err != nil {
		fmt.Println("evidence marshal:", err)
		os.Exit(2)
	}
	p := filepath.Join(Root(), "evidence", r.ID+".json")
	_ = os.MkdirAll(filepath.Dir(p), 0o755)
	if err := os.WriteFile(p, append(b, '\n'), 0o644); err != nil {
		fmt.Println("evidence write:", err)
		os.Exit(2)
	}
	fmt.Printf("%s %s: wall=%.1fs violations=%d known=%d evidence=%s\n", r.ID, r.Tier, time.Since(r.start).Seconds(), unexplained, knownSeen, p)
	if unexplained > 0 {
		os.Exit(1)
	}
	os.Exit(0)
}
