package checks

import (
	"bytes"
	"encoding/json"
	"fmt"
	"sync"
	"sync/atomic"
	"time"

	"github.com/alttpo/snes/emulator"

	"verif/internal/par"
	"verif/internal/ref65816"
	"verif/internal/report"
)

func init() {
	Registry["C12"] = Check{GC: 25, Level: "model_checking", Run: runC12, Replay: replayC12}
}

// ------------------------------------------------------------ Step part

func c12StepCheck(x *cpuCtx, c *cpuCase) (sig, what string, nontrivial bool) {
	x.buildImage(c)
	e := ref65816.Table[c.Op]
	for i := 0; i < 2; i++ {
		m := x.ms[i]
		m.Mem().ResetFrom(&x.img)
		raw := mkRaw(c.S, c.Stale, c.Int)
		start := uint64(1000)
		if c.Stale != 0 {
			start = ^uint64(0) - 1 // the running total is about to wrap (the stale-copy valuations double as odd start states)
		}
		raw.AllCycles = start
		m.Load(raw)
		var wdmCalls []byte
		m.SetOnWDM(func(b byte) { wdmCalls = append(wdmCalls, b) })
		cy, st, pn := m.Step()
		m.SetOnWDM(nil)
		if pn != nil {
			continue // failure-freedom is C08's business
		}
		post := m.Save()
		name := m.Name()
		tag := fmt.Sprintf("%s:%s:%s", name, e.Mn, modeName[e.Mode])
		if cy < 1 {
			return "unexplained:cycles-below-1:" + tag, fmt.Sprintf("%s Step reported %d cycles | case %s", name, cy, c.String()), true
		}
		if post.AllCycles != start+uint64(cy) {
			return "unexplained:allcycles:" + tag, fmt.Sprintf("%s Step reported %d cycles but AllCycles grew by %d | case %s", name, cy, int64(post.AllCycles-start), c.String()), true
		}
		wantStop := c.S.Stopped || (e.Mn == "STP" && c.Int <= 1)
		if c.Int > 1 {
			// a pending interrupt redirects the fetch; the opcode executed is whatever sits at the vector target
			wantStop = c.S.Stopped || post.Stopped
		}
		if st != wantStop || post.Stopped != wantStop {
			return "unexplained:stop-status:" + tag, fmt.Sprintf("%s Step returned stopped=%v (field %v), want %v | case %s", name, st, post.Stopped, wantStop, c.String()), true
		}
		if e.Mn == "WDM" && c.Int <= 1 {
			nontrivial = true
			if len(wdmCalls) != 1 || wdmCalls[0] != c.Opnd[0] {
				return "unexplained:wdm-callback:" + tag, fmt.Sprintf("%s OnWDM calls %v, want exactly [%d] | case %s", name, wdmCalls, c.Opnd[0], c.String()), true
			}
		} else if len(wdmCalls) != 0 && c.Int <= 1 {
			return "unexplained:wdm-callback-spurious:" + tag, fmt.Sprintf("%s OnWDM called %v for a non-WDM instruction | case %s", name, wdmCalls, c.String()), true
		}
		nontrivial = true
	}
	// "a registered program-counter callback runs BEFORE the instruction fetched at its address": a callback
	// that replaces the opcode byte with NOP must make the interpreter execute the NOP (only the primary
	// interpreter consults OnPC; fetch sweep and plain states only)
	if c.Sweep == "fetch" && c.Int <= 1 && !c.S.Stopped {
		m := x.ms[0]
		m.Mem().ResetFrom(&x.img)
		raw := mkRaw(c.S, 0, 0)
		m.Load(raw)
		at := uint32(raw.RK)<<16 | uint32(raw.PC)
		calls := 0
		m.SetOnPC(map[uint32]func(){at: func() { calls++; m.Mem().Set(at, 0xEA) }})
		_, _, pn := m.Step()
		m.SetOnPC(nil)
		if post := m.Save(); pn == nil && (calls != 1 || post.PC != raw.PC+1 || post.RK != raw.RK) {
			return "unexplained:onpc-runs-after-fetch:" + e.Mn, fmt.Sprintf("a callback registered at %02x:%04x replaced the opcode $%02x there with NOP; it ran %d times and the step ended at %02x:%04x, not one byte further: the opcode was fetched before the callback ran | case %s", raw.RK, raw.PC, c.Op, calls, post.RK, post.PC, c.String()), true
		}
	}
	return "", "", nontrivial
}

func c12ProgOracle(e *progEnv, res *progStepResult) (sig, what string, descend bool) {
	mn := ref65816.Table[res.bytes[0]].Mn
	for i := 0; i < 2; i++ {
		if res.post[i].panic != nil {
			return "", "", false
		}
		name := e.x.ms[i].Name()
		cy := res.post[i].cycles
		if cy < 1 {
			return "unexplained:program:cycles-below-1:" + name + ":" + mn, fmt.Sprintf("%s reported %d cycles after %v (seed state %d)", name, cy, e.pathNames(), e.seed), false
		}
		if res.post[i].raw.AllCycles != res.pre[i].AllCycles+uint64(cy) {
			return "unexplained:program:allcycles:" + name + ":" + mn, fmt.Sprintf("%s: AllCycles %d -> %d but Step reported %d after %v", name, res.pre[i].AllCycles, res.post[i].raw.AllCycles, cy, e.pathNames()), false
		}
		want := res.pre[i].Stopped || mn == "STP"
		if symIntr(e.syms[res.sym].name) != 0 || res.pre[i].Interrupt > 1 {
			// an interrupt taken in this step redirects the fetch to the handler: whatever sits there executes
			want = res.pre[i].Stopped || res.post[i].raw.Stopped
		}
		if res.post[i].stopped != want || res.post[i].raw.Stopped != want {
			return "unexplained:program:stop-status:" + name + ":" + mn, fmt.Sprintf("%s: stopped result %v (field %v), want %v after %v (seed state %d)", name, res.post[i].stopped, res.post[i].raw.Stopped, want, e.pathNames(), e.seed), false
		}
	}
	// once stopped, Reset must clear the stop condition (the path state is reloaded afterwards)
	if res.post[0].raw.Stopped {
		for i := 0; i < 2; i++ {
			m := e.x.ms[i]
			if pn := m.Reset(); pn == nil {
				r0 := m.Save()
				if r0.Stopped {
					return "unexplained:program:reset-keeps-stopped:" + m.Name(), fmt.Sprintf("%s: still stopped after Reset following %v", m.Name(), e.pathNames()), false
				}
				op := m.Mem().Peek(uint32(r0.RK)<<16 | uint32(r0.PC))
				nOv := len(m.Mem().Ov)
				_, st, pn2 := m.Step()
				m.Mem().Ov = m.Mem().Ov[:nOv]
				// (an interrupt request raised before the Reset is still pending -- Reset does not cancel it --
				// and is accepted by this Step, which then executes the handler's first opcode, not op)
				if pn2 == nil && r0.Interrupt == 0 && st != (ref65816.Table[op].Mn == "STP") {
					return "unexplained:program:stop-status-after-reset:" + m.Name(), fmt.Sprintf("%s: first Step after Reset (opcode %02x) reports stopped=%v following %v", m.Name(), op, st, e.pathNames()), false
				}
			}
			m.Load(e.cur[i])
		}
	}
	return "", "", true
}

// ------------------------------------------------------------ RunUntil part

type c12Instr struct {
	name  string
	bytes []byte
}

var c12Alphabet = []c12Instr{
	{"NOP", []byte{0xEA}}, {"INX", []byte{0xE8}}, {"LDA #$1234", []byte{0xA9, 0x34, 0x12}}, {"STA $10", []byte{0x85, 0x10}},
	{"PHA", []byte{0x48}}, {"PLA", []byte{0x68}}, {"BRA -2", []byte{0x80, 0xFE}}, {"BRA -3", []byte{0x80, 0xFD}}, {"BNE -3", []byte{0xD0, 0xFD}}, {"BRA +1", []byte{0x80, 0x01}},
	{"JMP self", nil}, {"STP", []byte{0xDB}}, {"WDM #$07", []byte{0x42, 0x07}}, {"MVN $7E,$7E", []byte{0x54, 0x7E, 0x7E}}, {"JSR next", nil}, {"RTS", []byte{0x60}}, {"DEX", []byte{0xCA}},
}

type c12Run struct {
	Prog   []string `json:"program"`
	Start  uint32   `json:"start"`
	Target uint32   `json:"target"`
	Budget uint64   `json:"budget"`
	Logger int      `json:"logger"` // 0 none, 1 plain writer, 2 writer with Reserve/Commit
	OnPCAt []uint32 `json:"onpc,omitempty"`
	// Cycles0: the CPU's running cycle total when RunUntil is called (an exported field, part of the start
	// state): the budget counts the cycles of THIS call, wherever the running total stands -- also just below 2^64
	Cycles0 uint64 `json:"cycles0,omitempty"`
}

type c12World struct {
	sut, twin *emulator.System
	// watchdog: what this world is executing right now and since when (guarded by c12WatchMu)
	busy    *c12Run
	started time.Time
	// length of the logger's buffer when the first RunUntil call of the last scenario returned
	logLen1 int
	// skipped: the last scenario was abandoned after the twin had run but before the System under test did
	// (nothing to judge); the two Systems' memories are then out of step and are wiped before the next one
	skipped bool
	// unlogged: the RunUntil call in progress has no logger attached (C14's reference run)
	unlogged bool
}

var (
	c12WatchMu     sync.Mutex
	c12WatchWorlds []*c12World
)

// c12Watchdog turns a RunUntil that never returns (possible only if Step stops reporting cycles
// without even reaching the program-counter callbacks) into a reported violation instead of a hung
// checker. The limit is four orders of magnitude above what a scenario takes; the checker then
// reports the violation and exits, giving up the rest of the exploration.
func c12Watchdog(r *report.Run, id string, limit time.Duration) {
	go func() {
		for {
			time.Sleep(2 * time.Second)
			c12WatchMu.Lock()
			for _, w := range c12WatchWorlds {
				if w.busy != nil && time.Since(w.started) > limit {
					rr := *w.busy
					unlogged := w.unlogged
					c12WatchMu.Unlock()
					if id == "C14" && unlogged {
						// the call that hangs has no logger attached: whether RunUntil returns is C12's property
						r.Incomplete("exploration abandoned: a RunUntil call WITHOUT a logger did not return (see C12); nothing can be said about tracing beyond the cases already covered")
						r.Finish()
					}
					r.Incomplete("exploration abandoned: a RunUntil call did not return")
					r.Violation("unexplained:rununtil-does-not-return", fmt.Sprintf("RunUntil did not return within %v (program %v at $%06x target $%06x budget %d logger %d): it keeps looping without consuming cycles", limit, rr.Prog, rr.Start, rr.Target, rr.Budget, rr.Logger), rr)
					r.Finish()
				}
			}
			c12WatchMu.Unlock()
		}
	}()
}

func c12NewWorld() (*c12World, error) {
	w := &c12World{sut: &emulator.System{}, twin: &emulator.System{}}
	if err := w.sut.CreateEmulator(); err != nil {
		return nil, err
	}
	if err := w.twin.CreateEmulator(); err != nil {
		return nil, err
	}
	c12WatchMu.Lock()
	c12WatchWorlds = append(c12WatchWorlds, w)
	c12WatchMu.Unlock()
	return w, nil
}

func c12Assemble(prog []string, start uint32) ([]byte, []uint32, error) {
	var out []byte
	var bounds []uint32
	for _, n := range prog {
		var ins *c12Instr
		for i := range c12Alphabet {
			if c12Alphabet[i].name == n {
				ins = &c12Alphabet[i]
			}
		}
		if ins == nil {
			return nil, nil, fmt.Errorf("unknown instruction %q", n)
		}
		at := start + uint32(len(out))
		bounds = append(bounds, at)
		switch n {
		case "JMP self":
			out = append(out, 0x4C, byte(at), byte(at>>8))
		case "JSR next":
			out = append(out, 0x20, byte(at+3), byte((at+3)>>8))
		default:
			out = append(out, ins.bytes...)
		}
	}
	bounds = append(bounds, start+uint32(len(out)))
	return out, bounds, nil
}

type plainWriter struct{ buf bytes.Buffer }

func (p *plainWriter) Write(b []byte) (int, error) { return p.buf.Write(b) }

type rcWriter struct {
	buf       bytes.Buffer
	reserved  []int
	committed int
}

func (p *rcWriter) Write(b []byte) (int, error) { return p.buf.Write(b) }
func (p *rcWriter) Reserve(n int)               { p.reserved = append(p.reserved, n) }
func (p *rcWriter) Commit()                     { p.committed++ }

type c12Sentinel struct{}

func c12SetState(s *emulator.System, start uint32) {
	bus := s.CPU.Bus
	onpc := s.CPU.OnPC
	s.CPU.Init(bus)
	s.CPU.OnPC = onpc
	s.CPU.SP = 0x01FF
	s.CPU.RDBR = 0x7E
	s.CPU.RA, s.CPU.RX, s.CPU.RY = 0x0002, 0x2100, 0x2200
	s.CPU.RAl, s.CPU.RAh, s.CPU.RXl, s.CPU.RYl = 0x02, 0x00, 0x00, 0x00
	s.SetPC(start)
}

type c12Snap struct {
	RK                             byte
	PC, SP, RA, RX, RY, RD         uint16
	RAl, RAh, RXl, RYl, RDBR, P, E byte
	Stopped                        bool
	Cycles                         uint64
}

func (c c12Snap) String() string {
	return fmt.Sprintf("PC=%02x:%04x SP=%04x RA=%04x RAl=%02x RAh=%02x RX=%04x RY=%04x RXl=%02x RYl=%02x D=%04x DBR=%02x P=%02x E=%d stopped=%v cycles=%d",
		c.RK, c.PC, c.SP, c.RA, c.RAl, c.RAh, c.RX, c.RY, c.RXl, c.RYl, c.RD, c.RDBR, c.P, c.E, c.Stopped, c.Cycles)
}

func c12Snapshot(s *emulator.System) c12Snap {
	c := &s.CPU
	return c12Snap{c.RK, c.PC, c.SP, c.RA, c.RX, c.RY, c.RD, c.RAl, c.RAh, c.RXl, c.RYl, c.RDBR, c.Flags(), c.E, c.Stopped, c.AllCycles}
}

// c12Prepare puts a System into the scenario's initial state (memory cleared, program placed).
func c12Prepare(s *emulator.System, r c12Run) {
	code, _, _ := c12Assemble(r.Prog, r.Start)
	for i := range s.WRAM {
		s.WRAM[i] = 0
	}
	for i := 0; i < 0x100; i++ {
		s.ROM[i] = 0
	}
	for i, b := range code {
		s.Bus.EaWrite(r.Start+uint32(i), b)
	}
	s.Logger = nil
	s.CPU.OnPC = nil
	c12SetState(s, r.Start)
	s.CPU.AllCycles = r.Cycles0
}

// c12Exec runs one RunUntil scenario on the system under test and the manual twin loop.
func c12Exec(w *c12World, r c12Run) (sig, what string) {
	code, _, err := c12Assemble(r.Prog, r.Start)
	if err != nil {
		return "bad-case", err.Error()
	}
	if w.skipped {
		for _, s := range []*emulator.System{w.sut, w.twin} {
			for i := range s.ROM {
				s.ROM[i] = 0
			}
			for i := range s.SRAM {
				s.SRAM[i] = 0
			}
		}
		w.skipped = false
	}
	c12Prepare(w.sut, r)
	c12Prepare(w.twin, r)
	// twin: the loop the property describes, stepped by hand
	var twinPre []c12Snap
	twinFetch := map[uint32]int{}
	var consumed uint64
	steps := 0
	stepCap := r.Budget
	if stepCap > 1000 {
		stepCap = 1000 // every instruction takes at least one cycle; the huge budgets ("no limit") are only used with targets that are reached
	}
	for consumed < r.Budget && w.twin.GetPC() != r.Target {
		twinPre = append(twinPre, c12Snapshot(w.twin))
		twinFetch[w.twin.GetPC()]++
		n, _ := w.twin.CPU.Step()
		if n < 1 {
			w.skipped = true
			return "", "" // Step part of C12 judges this; the twin cannot continue meaningfully
		}
		consumed += uint64(n)
		steps++
		if steps > int(stepCap)+2 {
			break
		}
	}
	if r.Budget > 1000 && consumed < r.Budget && w.twin.GetPC() != r.Target {
		w.skipped = true
		return "", "" // an effectively unlimited budget with a target that is not reached within 1000 instructions: not run
	}
	// system under test
	var pw *plainWriter
	var rw *rcWriter
	switch r.Logger {
	case 1:
		pw = &plainWriter{}
		w.sut.Logger = pw
	case 2:
		rw = &rcWriter{}
		w.sut.Logger = rw
	}
	var sutPre []c12Snap
	calls := 0
	guard := int(stepCap) + 3
	cb := map[uint32]func(){}
	watch := func(a uint32) {
		cb[a] = func() {
			calls++
			if calls > guard {
				panic(c12Sentinel{})
			}
			sutPre = append(sutPre, c12Snapshot(w.sut))
		}
	}
	// callbacks on every byte of the program area and around page 0 / the BRK target, so that a
	// non-terminating RunUntil is caught by the guard instead of hanging the checker
	for a := r.Start - 2; a < r.Start+uint32(len(code))+4; a++ {
		watch(a)
	}
	for a := uint32(0); a < 8; a++ {
		watch(a)
	}
	w.sut.CPU.OnPC = cb
	var got bool
	var pn interface{}
	c12WatchMu.Lock()
	w.busy, w.started = &r, time.Now()
	c12WatchMu.Unlock()
	func() {
		defer func() { pn = recover() }()
		got = w.sut.RunUntil(r.Target, r.Budget)
	}()
	c12WatchMu.Lock()
	w.busy = nil
	c12WatchMu.Unlock()
	desc := func() string {
		return fmt.Sprintf("program %v at $%06x target $%06x budget %d logger %d running total at entry %d", r.Prog, r.Start, r.Target, r.Budget, r.Logger, r.Cycles0)
	}
	if pn != nil {
		if _, ok := pn.(c12Sentinel); ok {
			return "unexplained:rununtil-does-not-stop", fmt.Sprintf("RunUntil executed more than %d instructions without returning | %s", guard, desc())
		}
		return "unexplained:rununtil-panics", fmt.Sprintf("RunUntil panicked: %v | %s", pn, desc())
	}
	want := w.twin.GetPC() == r.Target
	if got != want || (w.sut.GetPC() == r.Target) != got {
		return "unexplained:rununtil-result", fmt.Sprintf("RunUntil returned %v, PC=$%06x, twin PC=$%06x target reached=%v | %s", got, w.sut.GetPC(), w.twin.GetPC(), want, desc())
	}
	if a, b := c12Snapshot(w.sut), c12Snapshot(w.twin); a != b {
		sig := "unexplained:rununtil-final-state"
		if r.Logger != 0 {
			sig = "unexplained:logger-perturbs-execution"
		}
		return sig, fmt.Sprintf("final state differs from the hand-stepped loop: got %v want %v | %s", a, b, desc())
	}
	if !bytes.Equal(w.sut.WRAM[:], w.twin.WRAM[:]) || !bytes.Equal(w.sut.SRAM[:], w.twin.SRAM[:]) || !bytes.Equal(w.sut.ROM[:0x10000], w.twin.ROM[:0x10000]) {
		return "unexplained:rununtil-final-memory", "final memory differs from the hand-stepped loop | " + desc()
	}
	// callbacks: exactly once per fetch inside the watched area, before the instruction's effects
	var wantPre []c12Snap
	for _, s := range twinPre {
		if _, ok := cb[uint32(s.RK)<<16|uint32(s.PC)]; ok {
			wantPre = append(wantPre, s)
		}
	}
	if len(sutPre) != len(wantPre) {
		return "unexplained:onpc-call-count", fmt.Sprintf("program-counter callbacks ran %d times, want %d (once per instruction fetched at a registered address) | %s", len(sutPre), len(wantPre), desc())
	}
	for i := range wantPre {
		if sutPre[i] != wantPre[i] {
			return "unexplained:onpc-sees-wrong-state", fmt.Sprintf("callback #%d saw %v, want the pre-instruction state %v | %s", i, sutPre[i], wantPre[i], desc())
		}
	}
	if rw != nil {
		for _, n := range rw.reserved {
			if n < 0 {
				return "unexplained:logger-reserve-negative", fmt.Sprintf("the logger was asked to Reserve(%d) | %s", n, desc())
			}
		}
	}
	if rw != nil && (rw.committed != 1 || len(rw.reserved) != 1) {
		return "unexplained:logger-reserve-commit", fmt.Sprintf("Reserve called %v times, Commit %d times, want once each | %s", rw.reserved, rw.committed, desc())
	}
	// life after RunUntil: a second call on the same System (towards the end of the program, fresh budget)
	// must again behave like the hand-stepped loop continued from where the first one stopped
	switch {
	case pw != nil:
		w.logLen1 = pw.buf.Len()
	case rw != nil:
		w.logLen1 = rw.buf.Len()
	}
	target2, budget2 := r.Start+uint32(len(code)), uint64(24)
	consumed, steps = 0, 0
	for consumed < budget2 && w.twin.GetPC() != target2 {
		n, _ := w.twin.CPU.Step()
		if n < 1 {
			return "", ""
		}
		consumed += uint64(n)
		if steps++; steps > int(budget2)+2 {
			break
		}
	}
	calls, guard = 0, int(budget2)+3
	sutPre = sutPre[:0]
	c12WatchMu.Lock()
	w.busy, w.started = &r, time.Now()
	c12WatchMu.Unlock()
	func() {
		defer func() { pn = recover() }()
		got = w.sut.RunUntil(target2, budget2)
	}()
	c12WatchMu.Lock()
	w.busy = nil
	c12WatchMu.Unlock()
	if pn != nil {
		return "unexplained:second-rununtil", fmt.Sprintf("a second RunUntil($%06x, %d) on the same System panicked or did not stop: %v | first call: %s", target2, budget2, pn, desc())
	}
	if a, b := c12Snapshot(w.sut), c12Snapshot(w.twin); a != b || got != (w.twin.GetPC() == target2) {
		return "unexplained:second-rununtil", fmt.Sprintf("after a second RunUntil($%06x, %d) on the same System: result %v state %v, the hand-stepped loop gives result %v state %v | first call: %s", target2, budget2, got, a, w.twin.GetPC() == target2, b, desc())
	}
	if !bytes.Equal(w.sut.WRAM[:], w.twin.WRAM[:]) || !bytes.Equal(w.sut.SRAM[:], w.twin.SRAM[:]) || !bytes.Equal(w.sut.ROM[:0x10000], w.twin.ROM[:0x10000]) {
		return "unexplained:second-rununtil", "after a second RunUntil on the same System memory differs from the hand-stepped loop | first call: " + desc()
	}
	if rw != nil && (rw.committed != 2 || len(rw.reserved) != 2) {
		return "unexplained:logger-reserve-commit", fmt.Sprintf("after two RunUntil calls Reserve was called %v times, Commit %d times, want twice each | %s", rw.reserved, rw.committed, desc())
	}
	return "", ""
}

// c12Mover is a logger whose Commit moves the program counter (a trace sink that rewinds to a checkpoint
// would): "returns true exactly when the program counter equals the target ON EXIT" -- exit is after Commit.
type c12Mover struct {
	sys *emulator.System
	to  uint32
}

func (l *c12Mover) Write(p []byte) (int, error) { return len(p), nil }
func (l *c12Mover) Reserve(int)                 {}
func (l *c12Mover) Commit()                     { l.sys.SetPC(l.to) }

type c12MoveCase struct {
	MoveProg   []string `json:"move_program"`
	Start      uint32   `json:"start"`
	Target     uint32   `json:"target"`
	Budget     uint64   `json:"budget"`
	CommitSets uint32   `json:"commit_sets_pc"`
}

func c12MoveRun(w *c12World, c c12MoveCase) (sig, what string) {
	if len(c.MoveProg) == 1 && c.MoveProg[0] == "STP-then-SetPC" {
		rr := c12Run{Prog: []string{"NOP", "STP", "NOP", "NOP"}, Start: 0x7E2000, Target: 0x7E3000, Budget: 20}
		c12Prepare(w.sut, rr)
		w.sut.RunUntil(rr.Target, rr.Budget)
		w.sut.SetPC(c.Target)
		if n, st := w.sut.CPU.Step(); !st || !w.sut.CPU.Stopped || n < 1 {
			return "unexplained:stop-cleared-without-reset", fmt.Sprintf("after STP, SetPC($%06x) and a Step: Step returned (%d, %v), CPU.Stopped=%v", c.Target, n, st, w.sut.CPU.Stopped)
		}
		return "", ""
	}
	rr := c12Run{Prog: c.MoveProg, Start: c.Start, Target: c.Target, Budget: c.Budget}
	if _, _, err := c12Assemble(rr.Prog, rr.Start); err != nil {
		return "bad-case", err.Error()
	}
	c12Prepare(w.sut, rr)
	w.sut.Logger = &c12Mover{w.sut, c.CommitSets}
	var got bool
	var pn interface{}
	func() {
		defer func() { pn = recover() }()
		got = w.sut.RunUntil(c.Target, c.Budget)
	}()
	w.sut.Logger = nil
	w.skipped = true // the twin did not run: wipe before the next ordinary scenario
	if pn != nil {
		return "unexplained:rununtil-panics", fmt.Sprintf("RunUntil panicked: %v | %+v", pn, c)
	}
	if got != (w.sut.GetPC() == c.Target) {
		return "unexplained:rununtil-result", fmt.Sprintf("RunUntil returned %v but on exit PC=$%06x and the target is $%06x (the logger's Commit moved the PC to $%06x) | %+v", got, w.sut.GetPC(), c.Target, c.CommitSets, c)
	}
	return "", ""
}

func c12AgedCheck(x *cpuCtx, c *cpuCase) (string, string) {
	sig, what, _ := c12StepCheck(x, c)
	return sig, what
}

func replayC12(raw json.RawMessage) (string, error) {
	cpuDirtIRQ = true
	if ok, what, err := cpuAgedReplay(raw, c12AgedCheck); ok {
		return what, err
	}
	var pp progPath
	if json.Unmarshal(raw, &pp) == nil && len(pp.Syms) > 0 {
		return progReplay(pp, progSeeds(true), progAlphabetInt(), false, c12ProgOracle, progOwnPC)
	}
	var mc c12MoveCase
	if json.Unmarshal(raw, &mc) == nil && len(mc.MoveProg) > 0 {
		w, err := c12NewWorld()
		if err != nil {
			return "", err
		}
		sig, what := c12MoveRun(w, mc)
		if sig == "" {
			return "the result describes the program counter on exit", nil
		}
		return what, fmt.Errorf("%s", sig)
	}
	var rr c12Run
	if json.Unmarshal(raw, &rr) == nil && len(rr.Prog) > 0 {
		w, err := c12NewWorld()
		if err != nil {
			return "", err
		}
		sig, what := c12Exec(w, rr)
		if sig == "" {
			return "RunUntil agrees with the hand-stepped loop", nil
		}
		return what, fmt.Errorf("%s", sig)
	}
	var c cpuCase
	if err := json.Unmarshal(raw, &c); err != nil {
		return "", err
	}
	sig, what, _ := c12StepCheck(newCPUCtx(), &c)
	if sig == "" {
		return "cycle accounting and stop status are as specified", nil
	}
	return what, fmt.Errorf("%s", sig)
}

// c12Programs enumerates every program up to the depth over the alphabet.
func c12Programs(depth int) [][]string {
	var out [][]string
	var rec func(p []string, d int)
	rec = func(p []string, d int) {
		if len(p) > 0 {
			out = append(out, append([]string(nil), p...))
		}
		if d == 0 {
			return
		}
		for _, a := range c12Alphabet {
			rec(append(p, a.name), d-1)
		}
	}
	rec(nil, depth)
	return out
}

func c12Scenarios(depth int, loggers []int, budgets []uint64) []c12Run {
	var runs []c12Run
	for _, prog := range c12Programs(depth) {
		for _, start := range []uint32{0x7E2000, 0x008000} {
			_, bounds, _ := c12Assemble(prog, start)
			targets := append([]uint32(nil), bounds...)
			for i := 0; i+1 < len(bounds); i++ {
				if bounds[i+1]-bounds[i] > 1 {
					targets = append(targets, bounds[i]+1) // inside an operand
				}
			}
			targets = append(targets, 0x7E3000, start^0x010000, 0x000000)
			// the target is a uint32: values above the 24-bit space equal no program counter
			targets = append(targets, bounds[0]|0x01000000, bounds[len(bounds)-1]|0xFF000000)
			if len(bounds) > 2 {
				targets = append(targets, bounds[1]|0x80000000)
			}
			for _, t := range targets {
				for _, b := range budgets {
					for _, lg := range loggers {
						runs = append(runs, c12Run{Prog: prog, Start: start, Target: t, Budget: b, Logger: lg})
					}
				}
			}
		}
	}
	return runs
}

func runC12(r *report.Run) {
	cpuDirtIRQ = true
	thorough := r.Tier == "thorough"
	// ---- Step part: single steps
	o := cpuSweepOpts{thorough: thorough, withE: true, withInt: true, seed: r.Seed}
	var nontriv, total int64
	agedSteps := cpuAgedAll(r, thorough, true, c12AgedCheck)
	counts := cpuEnumerate(o, nil, func(x *cpuCtx, c *cpuCase) {
		for _, stp := range []bool{false, true} {
			cc := *c
			cc.S.Stopped = stp
			if stp && cc.Sweep != "flags" {
				continue
			}
			sig, what, nt := c12StepCheck(x, &cc)
			if nt {
				atomic.AddInt64(&nontriv, 1)
			}
			atomic.AddInt64(&total, 1)
			if sig != "" {
				r.Violation(sig, what, cc)
			}
		}
	})
	// all 256 WDM operands
	{
		x := newCPUCtx()
		for v := 0; v < 256; v++ {
			for mx := 0; mx < 4; mx++ {
				c := cpuDefaultCase(0x42)
				c.Opnd[0] = byte(v)
				c.S.P = byte(mx) << 4
				c.Sweep = "wdm"
				total++
				if sig, what, _ := c12StepCheck(x, &c); sig != "" {
					r.Violation(sig, what, c)
				}
			}
		}
	}
	// ---- Step part: sequences (stop status along programs, 3+ steps past STP)
	depth := 4
	if thorough {
		depth = 5
	}
	syms, seeds := progAlphabetInt(), progSeeds(true)
	st, tr := progSearch(depth, seeds, syms, false, 0x9E3779B9, progVisitOf(r, 0x9E3779B9, c12ProgOracle), progOwnPC)
	// ---- RunUntil part
	pdepth := 3
	budgets := []uint64{0, 1, 2, 3, 5, 8, 13, 50}
	if thorough {
		budgets = append(budgets, 4, 6, 7, 21, 100)
	}
	runs := c12Scenarios(pdepth, []int{0}, budgets)
	for _, rr := range runs[:len(runs):len(runs)] {
		if rr.Budget == 1 || rr.Budget == 3 || rr.Budget == 8 {
			rr.Cycles0 = ^uint64(0) - 2 // the running total wraps during the call
			runs = append(runs, rr)
		}
	}
	c12Watchdog(r, "C12", 120*time.Second)
	worlds := make([]*c12World, par.Workers())
	var executed int64
	par.For(len(runs), func(wk, i int) {
		if worlds[wk] == nil {
			w, err := c12NewWorld()
			if err != nil {
				r.Violation("unexplained:create-emulator", err.Error(), nil)
				return
			}
			worlds[wk] = w
		}
		sig, what := c12Exec(worlds[wk], runs[i])
		atomic.AddInt64(&executed, 1)
		if sig != "" {
			r.Violation(sig, what, runs[i])
		}
	})
	// the stop condition lasts until Reset: not until SetPC, GetPC or a RunUntil call on the System
	if w, err := c12NewWorld(); err == nil {
		rr := c12Run{Prog: []string{"NOP", "STP", "NOP", "NOP"}, Start: 0x7E2000, Target: 0x7E3000, Budget: 20}
		c12Prepare(w.sut, rr)
		w.sut.RunUntil(rr.Target, rr.Budget)
		executed++
		for _, pc := range []uint32{0x7E2002, 0x7E2000, 0x008000} {
			w.sut.SetPC(pc)
			_ = w.sut.GetPC()
			w.sut.RunUntil(pc, 0)
			if n, st := w.sut.CPU.Step(); !st || !w.sut.CPU.Stopped || n < 1 {
				r.Violation("unexplained:stop-cleared-without-reset", fmt.Sprintf("after STP, SetPC($%06x) and a Step: Step returned (%d, %v), CPU.Stopped=%v; only Reset ends the stop condition", pc, n, st, w.sut.CPU.Stopped), c12MoveCase{MoveProg: []string{"STP-then-SetPC"}, Start: 0x7E2000, Target: pc})
				break
			}
		}
		w.skipped = true
	}
	// a logger whose Commit moves the PC onto / off the target
	if w, err := c12NewWorld(); err == nil {
		for _, prog := range [][]string{{"NOP", "NOP", "NOP"}, {"INX", "BRA -3"}} {
			_, bounds, _ := c12Assemble(prog, 0x7E2000)
			for _, t := range bounds {
				for _, b := range []uint64{0, 1, 4, 50} {
					for _, to := range []uint32{t, t ^ 1, 0x7E2000, 0x008000} {
						mc := c12MoveCase{prog, 0x7E2000, t, b, to}
						executed++
						if sig, what := c12MoveRun(w, mc); sig != "" {
							r.Violation(sig, what, mc)
						}
					}
				}
			}
		}
	}
	r.Set("program_search", map[string]interface{}{"depth": depth, "alphabet": len(syms), "seed_states": len(seeds), "distinct_states": st, "steps_executed": tr})
	r.Set("rununtil", map[string]interface{}{"programs": len(c12Programs(pdepth)), "program_depth": pdepth, "alphabet": len(c12Alphabet), "budgets": budgets, "scenarios_executed": executed})
	r.Set("single_step_cases_by_sweep", counts)
	r.Set("states", total+st+executed)
	r.Set("transitions", 2*total+2*tr+executed)
	r.Set("traces_validated_against_impl", 2*total+2*tr+executed)
	r.Set("evaluations", 2*total+2*tr+executed+agedSteps)
	r.Set("distinct_nontrivial", nontriv+executed)
	for i, cs := range cpuSampled {
		if i%8 == 0 {
			r.Sample(cs)
		}
	}
	r.Set("rule", "Step part: every case of the five sweeps (E, pending interrupts, Stopped before/after) on both interpreters: cycles >= 1, AllCycles grows by exactly the reported count, stop status as specified, OnWDM receives exactly the operand (all 256), an OnPC callback that patches the opcode it stands on takes effect on that very step; sequences: the same along every program of the search incl. steps after STP and Reset. RunUntil part: every program up to depth 3 over a 16-instruction alphabet (loops, STP, block move, calls) x 2 placements x every instruction boundary / inside-operand / unreachable target / boundary with bits above the 24-bit space set x the budget alphabet (budgets 1, 3, 8 also with the running cycle total two below 2^64 at entry) on a real emulator.System, compared with a twin System stepped by hand (final CPU state, memory, result; then a second RunUntil call on the same System towards the end of the program, compared again) with program-counter callbacks on every program byte (exactly once per fetch, pre-instruction state) that double as a non-termination guard")
	r.Sample(c12Run{Prog: []string{"LDA #$1234", "BRA -2"}, Start: 0x7E2000, Target: 0x7E2003, Budget: 13})
	r.Sample(c12Run{Prog: []string{"STP", "NOP"}, Start: 0x008000, Target: 0x008001, Budget: 50})
	r.Assume("the twin is a second real System stepped by hand: the loop logic of RunUntil is judged, the Step semantics are judged by C01/C02")
}
