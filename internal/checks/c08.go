package checks

import (
	"encoding/json"
	"fmt"
	"sync/atomic"

	"verif/internal/ref65816"
	"verif/internal/report"
)

func init() {
	Registry["C08"] = Check{GC: 25, Level: "model_checking", Run: runC08, Replay: replayC08}
}

// alphabets concentrated at the top of the address space
func cpuAlphaHigh() cpuAlpha {
	return cpuAlpha{
		locs:   [][2]uint32{{0xFF, 0xFFFC}, {0xFF, 0xFFFD}, {0xFF, 0xFFFE}, {0xFF, 0xFFFF}, {0xFE, 0xFFFF}, {0x00, 0x8000}},
		bytes:  []byte{0x00, 0x01, 0xFE, 0xFF},
		acc:    []uint16{0x0000, 0x00FF, 0xFFFF, 0x1234},
		idx:    []uint16{0x0000, 0x0001, 0x0002, 0x00FF, 0x0100, 0xFFFF},
		sp:     []uint16{0x01FF, 0x0000, 0xFFFE, 0xFFFF},
		dreg:   []uint16{0x0000, 0x00FF, 0xFF00, 0xFFFF},
		dbr:    []byte{0xFE, 0xFF},
		ptrLo:  []uint16{0x0000, 0xFF00, 0xFFFE, 0xFFFF},
		ptrBk:  []byte{0xFE, 0xFF},
		seeds:  []uint32{0x9E3779B9},
		opLocs: [][2]uint32{{0xFF, 0xFFFC}, {0x00, 0x8000}},
	}
}

func c08Check(x *cpuCtx, c *cpuCase) (sig, what string, nontrivial bool) {
	x.buildImage(c)
	e := ref65816.Table[c.Op]
	for i := 0; i < 2; i++ {
		ir := x.runImpl(i, c)
		m := x.ms[i].Mem()
		name := x.ms[i].Name()
		for _, a := range m.Reads {
			if a >= 0xFF0000 || a < 0x000100 {
				nontrivial = true
			}
		}
		if ir.panic != nil {
			return fmt.Sprintf("unexplained:panic:%s:%s:%s", name, e.Mn, modeName[e.Mode]),
				fmt.Sprintf("%s %s %s: runtime failure %v | case %s", name, e.Mn, modeName[e.Mode], ir.panic, c.String()), nontrivial
		}
		if m.Bad {
			var bad uint32
			for _, a := range m.Reads {
				if a >= 1<<24 {
					bad = a
				}
			}
			for _, w := range m.Writes {
				if w.A >= 1<<24 {
					bad = w.A
				}
			}
			return fmt.Sprintf("unexplained:address-out-of-range:%s:%s:%s", name, e.Mn, modeName[e.Mode]),
				fmt.Sprintf("%s %s %s: bus access at $%x >= 2^24 | case %s", name, e.Mn, modeName[e.Mode], bad, c.String()), nontrivial
		}
		if m.Misrouted {
			return fmt.Sprintf("unexplained:access-handed-to-wrong-memory:%s:%s:%s", name, e.Mn, modeName[e.Mode]),
				fmt.Sprintf("%s %s %s: the access to $%06x was handed to the memory object attached over another 16-byte cell (the space is mapped by two interleaved objects; with separate backing arrays this is an out-of-range access) | case %s", name, e.Mn, modeName[e.Mode], m.MisAddr, c.String()), nontrivial
		}
	}
	return "", "", nontrivial
}

func c08ProgOracle(e *progEnv, res *progStepResult) (sig, what string, descend bool) {
	mn := ref65816.Table[res.bytes[0]].Mn
	for i := 0; i < 2; i++ {
		name := e.x.ms[i].Name()
		if res.post[i].panic != nil {
			return "unexplained:program:panic:" + name + ":" + mn, fmt.Sprintf("%s: runtime failure %v after %v from seed state %d", name, res.post[i].panic, e.pathNames(), e.seed), false
		}
		if e.x.ms[i].Mem().Bad {
			return "unexplained:program:address-out-of-range:" + name + ":" + mn, fmt.Sprintf("%s: bus access >= 2^24 after %v from seed state %d", name, e.pathNames(), e.seed), false
		}
		if mm := e.x.ms[i].Mem(); mm.Misrouted {
			return "unexplained:program:access-handed-to-wrong-memory:" + name + ":" + mn, fmt.Sprintf("%s: the access to $%06x was handed to the memory object of another 16-byte cell after %v from seed state %d", name, mm.MisAddr, e.pathNames(), e.seed), false
		}
	}
	return "", "", true
}

func c08AgedCheck(x *cpuCtx, c *cpuCase) (string, string) {
	sig, what, _ := c08Check(x, c)
	return sig, what
}

func replayC08(raw json.RawMessage) (string, error) {
	cpuDirtIRQ = true
	if ok, what, err := cpuAgedReplay(raw, c08AgedCheck); ok {
		return what, err
	}
	var pp progPath
	if json.Unmarshal(raw, &pp) == nil && len(pp.Syms) > 0 {
		return progReplay(pp, progSeeds(true), progAlphabetInt(), false, c08ProgOracle)
	}
	var c cpuCase
	if err := json.Unmarshal(raw, &c); err != nil {
		return "", err
	}
	sig, what, _ := c08Check(newCPUCtx(), &c)
	if sig == "" {
		return "no runtime failure and every access below 2^24", nil
	}
	return what, fmt.Errorf("%s", sig)
}

func runC08(r *report.Run) {
	cpuDirtIRQ = true
	var nontriv, total int64
	f := func(x *cpuCtx, c *cpuCase) {
		sig, what, nt := c08Check(x, c)
		if nt {
			atomic.AddInt64(&nontriv, 1)
		}
		atomic.AddInt64(&total, 1)
		if sig != "" {
			r.Violation(sig, what, *c)
		}
	}
	o := cpuSweepOpts{thorough: r.Tier == "thorough", withE: true, withInt: true, seed: r.Seed}
	counts := cpuEnumerate(o, nil, f)
	hi := cpuAlphaHigh()
	oh := cpuSweepOpts{thorough: r.Tier == "thorough", withE: true, withInt: true, seed: r.Seed, alpha: &hi}
	countsHi := cpuEnumerate(oh, nil, f)
	depth := 3
	if o.thorough {
		depth = 4
	}
	syms, seeds := progAlphabetInt(), progSeeds(true)
	st, tr := progSearch(depth, seeds, syms, false, 0x9E3779B9, progVisitOf(r, 0x9E3779B9, c08ProgOracle))
	tr += cpuAgedAll(r, o.thorough, true, c08AgedCheck) / 2
	r.Set("program_search", map[string]interface{}{"depth": depth, "alphabet": len(syms), "seed_states": len(seeds), "distinct_states": st, "steps_executed": tr})
	r.Set("single_step_cases_by_sweep", counts)
	r.Set("high_address_cases_by_sweep", countsHi)
	r.Set("states", total+st)
	r.Set("transitions", 2*total+2*tr)
	r.Set("traces_validated_against_impl", 2*total+2*tr)
	r.Set("evaluations", 2*total+2*tr)
	r.Set("distinct_nontrivial", nontriv)
	for i, cs := range cpuSampled {
		if i%8 == 0 {
			r.Sample(cs)
		}
	}
	r.Set("rule", "the five single-step sweeps with E in {0,1} under the boundary alphabets, the same sweeps again under alphabets concentrated at the top of the address space (DBR $FE/$FF, operands $FFxx, pointers $FFFFFE/$FFFFFF, PC within 4 bytes of $FF:FFFF) the program search, and aged CPU objects (every opcode, and every ordered pair of the stack / control-transfer / interrupt opcodes, executed 300 times -- thorough: single opcodes 70000 times -- on the same CPU objects with the state reloaded in between): every Step of both interpreters must return without a runtime failure and every logged bus read/write address must be below 2^24; non-trivial = the step touched bank $FF or page 0 of bank 0 (wrap region)")
	r.Assume("whole 16 MiB bus mapped to one logging memory; the wrapped *target* of each access is judged by C01 (reference model), here only failure-freedom and the 24-bit bound")
	c := cpuDefaultCase(0xBD)
	c.S.DBR, c.Opnd, c.S.X = 0xFF, [3]byte{0xFF, 0xFF, 0}, 0xFFFF
	r.Sample(c.String())
}
