package checks

import (
	"encoding/json"
	"fmt"
	"os"
	"os/exec"
	"path/filepath"
	"strconv"
	"strings"
	"sync"
	"sync/atomic"

	"github.com/alttpo/snes/mapping/exhirom"
	"github.com/alttpo/snes/mapping/hirom"
	"github.com/alttpo/snes/mapping/lorom"
	"github.com/alttpo/snes/mapping/sa1rom"
	"github.com/alttpo/snes/mapping/util"

	"verif/internal/par"
	"verif/internal/refmap"
	"verif/internal/report"
)

type mapper struct {
	Name     string
	BusToPak func(uint32) (uint32, error)
	PakToBus func(uint32) (uint32, error)
	Table    *refmap.Table
}

var mappers = []mapper{
	{"lorom", lorom.BusAddressToPak, lorom.PakAddressToBus, &refmap.LoROM},
	{"hirom", hirom.BusAddressToPak, hirom.PakAddressToBus, &refmap.HiROM},
	{"exhirom", exhirom.BusAddressToPak, exhirom.PakAddressToBus, &refmap.ExHiROM},
	{"sa1rom", sa1rom.BusAddressToPak, sa1rom.PakAddressToBus, &refmap.SA1},
}

func init() {
	Registry["C04"] = Check{Level: "exploration", Run: runC04, Replay: replayMapCase(c04CheckAddr)}
	Registry["C05"] = Check{Level: "exploration", Run: runC05, Replay: replayMapCase(c05CheckAddr)}
}

type mapCase struct {
	Mapper string `json:"mapper"`
	Dir    string `json:"dir"` // "bus" = address is a bus address, "pak" = FX Pak Pro address
	Addr   uint32 `json:"addr"`
	// history probes: the translation of Addr is repeated right after another call -- of the same function
	// with PrevAddr (HasPrev), or of mapper PrevMapper's function with Addr
	HasPrev    bool   `json:"has_prev,omitempty"`
	PrevAddr   uint32 `json:"prev_addr,omitempty"`
	PrevMapper string `json:"prev_mapper,omitempty"`
	// Cold: Addr was met in the scrambled-order sweep that comes first in the process; the replay first
	// translates the addresses that sweep touched first in Addr's 64 KiB / 32 KiB / 8 KiB / 256-byte block
	Cold bool `json:"cold,omitempty"`
	// LinkedAlone: found by the binary that links only this mapper package (cmd/verifone)
	LinkedAlone bool `json:"linked_alone,omitempty"`
	// Want: with HasPrev, the answer for Addr in a plain ascending sweep ($FFFFFFFF: error)
	Want uint32 `json:"want,omitempty"`
}

// The first sweep of a process enumerates addresses as i ^ mapScramble for ascending i: every aligned block
// of every size is entered somewhere in its middle, not at its first byte (tables filled lazily from the
// first address seen in a block must not depend on which one that is).
const mapScramble = 0x5A5A5A

func mapColdTouches(a uint32) []uint32 {
	i := a ^ mapScramble
	var out []uint32
	for _, g := range []uint32{0x10000, 0x8000, 0x2000, 0x100} {
		t := (i &^ (g - 1)) ^ mapScramble
		if t != a && (len(out) == 0 || out[len(out)-1] != t) {
			out = append(out, t)
		}
	}
	return out
}

func mapColdSweep(r *report.Run, check func(m *mapper, dir string, a uint32) []mapFinding) (n int64) {
	for _, dir := range []string{"pak", "bus"} {
		for mi := range mappers {
			m := &mappers[mi]
			par.For(256, func(_, chunk int) {
				base := uint32(chunk) << 16
				for o := uint32(0); o < 0x10000; o++ {
					a := (base | o) ^ mapScramble
					for _, f := range check(m, dir, a) {
						r.Violation(f.sig+":first-touch-order", f.what+fmt.Sprintf(" (first sweep of the process, addresses in the order i^$%06x; the replay first translates %06x)", mapScramble, mapColdTouches(a)), mapCase{Mapper: m.Name, Dir: dir, Addr: a, Cold: true})
					}
				}
			})
			n += 1 << 24
		}
	}
	return
}

type mapFinding struct{ sig, what string }

// mapOneBinary runs the binary that links only one mapper package (built by ./run into VERIF_ONE_BINDIR).
func mapOneBinary(mapperName string, args ...string) (string, error) {
	dir := os.Getenv("VERIF_ONE_BINDIR")
	if dir == "" {
		return "", fmt.Errorf("VERIF_ONE_BINDIR not set (./run builds the single-mapper binaries)")
	}
	out, err := exec.Command(filepath.Join(dir, "verifone_"+mapperName), args...).Output()
	if err != nil && len(out) == 0 {
		return "", err
	}
	return string(out), nil
}

// mapNeighbourProbe: the answer for an address must not depend on which address was translated just
// before (a "last translation" cache keyed on part of the address would). Per mapper and direction the
// answers of a plain ascending sweep are tabulated; then for every address a and every bit 8..23 the
// neighbour a^bit is translated right after a and must give its tabulated answer.
const mapErr = 0xFFFFFFFF

var mapStrides = []int32{1, 2, 3, 4, 5, 16, 256, -1, -2, -3, -4, -16}

func mapNeighbourProbe(r *report.Run) (hist int64) {
	table := make([]uint32, 1<<24)
	for mi := range mappers {
		m := &mappers[mi]
		for _, dir := range []string{"bus", "pak"} {
			f := m.BusToPak
			if dir == "pak" {
				f = m.PakToBus
			}
			par.For(256, func(_, chunk int) {
				base := uint32(chunk) << 16
				for o := uint32(0); o < 0x10000; o++ {
					v, err, p := callMap(f, base|o)
					if p || err != nil {
						v = mapErr
					}
					table[base|o] = v
				}
			})
			par.For(256, func(_, chunk int) {
				base := uint32(chunk) << 16
				var n int64
				for o := uint32(0); o < 0x10000; o++ {
					a := base | o
					for k := uint(8); k < 24+uint(len(mapStrides)); k++ {
						nb := a ^ (1 << (k & 31))
						if k >= 24 {
							// ... and every address a few bytes ahead or behind (walking words, pointers, lines)
							nb = (a + uint32(mapStrides[k-24])) & 0xFFFFFF
						}
						callMap(f, a)
						r1, e1, p1 := callMap(f, nb)
						n += 2
						if p1 || e1 != nil {
							r1 = mapErr
						}
						if r1 != table[nb] {
							r.Violation("unexplained:depends-on-previous-call:"+m.Name, fmt.Sprintf("%s %s->: in an ascending sweep $%06x translates to $%06x, but right after translating $%06x to $%06x ($%08x stands for an error or panic)", m.Name, dir, nb, table[nb], a, r1, uint32(mapErr)), mapCase{Mapper: m.Name, Dir: dir, Addr: nb, HasPrev: true, PrevAddr: a, Want: table[nb]})
							break
						}
					}
				}
				atomic.AddInt64(&hist, n)
			})
		}
	}
	return
}

// mapHistoryProbe re-executes a history probe case: the recorded preceding call, then the call under test.
func mapHistoryProbe(c mapCase) (string, error) {
	m := mapperByName(c.Mapper)
	if m == nil {
		return "", fmt.Errorf("unknown mapper %q", c.Mapper)
	}
	pick := func(mm *mapper) func(uint32) (uint32, error) {
		if c.Dir == "bus" {
			return mm.BusToPak
		}
		return mm.PakToBus
	}
	f := pick(m)
	if c.PrevMapper == "" {
		callMap(f, c.PrevAddr)
		r1, e1, p1 := callMap(f, c.Addr)
		if p1 || e1 != nil {
			r1 = mapErr
		}
		if r1 != c.Want {
			return fmt.Sprintf("%s %s->: right after translating $%06x, $%06x translates to $%06x; in an ascending sweep to $%06x ($%08x stands for an error or panic)", c.Mapper, c.Dir, c.PrevAddr, c.Addr, r1, c.Want, uint32(mapErr)), fmt.Errorf("unexplained:depends-on-previous-call")
		}
		return "the translation does not depend on the preceding call", nil
	}
	r0, e0, _ := callMap(f, c.Addr)
	r0, e0, _ = callMap(f, c.Addr)
	pm := mapperByName(c.PrevMapper)
	if pm == nil {
		return "", fmt.Errorf("unknown mapper %q", c.PrevMapper)
	}
	callMap(pick(pm), c.Addr)
	prev := c.PrevMapper + " translating the same address"
	r1, e1, p1 := callMap(f, c.Addr)
	if p1 || r1 != r0 || (e1 == nil) != (e0 == nil) {
		return fmt.Sprintf("%s %s->: $%06x gives ($%06x, %v), right after %s ($%06x, %v)", c.Mapper, c.Dir, c.Addr, r0, e0, prev, r1, e1), fmt.Errorf("unexplained:depends-on-previous-call")
	}
	return "the translation does not depend on the preceding call", nil
}

func mapperByName(n string) *mapper {
	for i := range mappers {
		if mappers[i].Name == n {
			return &mappers[i]
		}
	}
	return nil
}

func replayMapCase(f func(m *mapper, dir string, a uint32) []mapFinding) func(json.RawMessage) (string, error) {
	return func(raw json.RawMessage) (string, error) {
		var c mapCase
		if err := json.Unmarshal(raw, &c); err != nil {
			return "", err
		}
		if c.HasPrev || c.PrevMapper != "" {
			return mapHistoryProbe(c)
		}
		if c.LinkedAlone {
			out, err := mapOneBinary(c.Mapper, c.Dir, fmt.Sprintf("%06x", c.Addr))
			if err != nil {
				return "", err
			}
			if strings.HasPrefix(out, "ONE-BAD") {
				return strings.TrimSpace(out), fmt.Errorf("unexplained:linked-alone:%s", c.Mapper)
			}
			return "in a program that links only this mapper the address translates as the region table says", nil
		}
		if c.Mapper == "sentinel" {
			if fs := c05SentinelProbe(); len(fs) > 0 {
				return fs[0].what, fmt.Errorf("%s", fs[0].sig)
			}
			return "every mapper reports the error the variable holds", nil
		}
		m := mapperByName(c.Mapper)
		if m == nil {
			return "", fmt.Errorf("unknown mapper %q", c.Mapper)
		}
		if c.Cold {
			for _, t := range mapColdTouches(c.Addr) {
				if c.Dir == "bus" {
					callMap(m.BusToPak, t)
				} else {
					callMap(m.PakToBus, t)
				}
			}
		}
		fs := f(m, c.Dir, c.Addr)
		if len(fs) == 0 {
			return "property holds for this address", nil
		}
		return fs[0].what, fmt.Errorf("%s", fs[0].sig)
	}
}

// safe wrappers: a panic is an observation
func callMap(f func(uint32) (uint32, error), a uint32) (r uint32, err error, panicked bool) {
	defer func() {
		if x := recover(); x != nil {
			panicked = true
		}
	}()
	r, err = f(a)
	return
}

// ---------------------------------------------------------------- C04

func c04CheckAddr(m *mapper, dir string, a uint32) (out []mapFinding) {
	if dir == "bus" {
		p, err := m.BusToPak(a)
		if err != nil {
			return nil
		}
		b2, err2 := m.PakToBus(p)
		if err2 != nil {
			return []mapFinding{{"unexplained:inverse-rejects:" + m.Name, fmt.Sprintf("%s: bus $%06x -> pak $%06x, but PakAddressToBus($%06x) fails: %v", m.Name, a, p, p, err2)}}
		}
		if b2 >= 1<<24 {
			return []mapFinding{{"unexplained:not-a-bus-address:" + m.Name, fmt.Sprintf("%s: bus $%06x -> pak $%06x -> $%x, which is not a 24-bit bus address", m.Name, a, p, b2)}}
		}
		p2, err3 := m.BusToPak(b2)
		if err3 != nil || p2 != p {
			sig := "unexplained:not-right-inverse:" + m.Name
			if m.Name == "lorom" && p >= 0xE70000 && p <= 0xE7FFFF && b2 == c04LoromF10(p) {
				sig = "lorom-pak-E7xxxx-to-wram"
			}
			return []mapFinding{{sig, fmt.Sprintf("%s: bus $%06x -> pak $%06x -> bus $%06x -> pak $%06x (err %v): not a right inverse", m.Name, a, p, b2, p2, err3)}}
		}
		return nil
	}
	// pak direction, clause (ii)
	b, err := m.PakToBus(a)
	if err != nil {
		return nil
	}
	if b >= 1<<24 {
		return []mapFinding{{"unexplained:not-a-bus-address:" + m.Name, fmt.Sprintf("%s: pak $%06x -> $%x, which is not a 24-bit bus address", m.Name, a, b)}}
	}
	p2, err2 := m.BusToPak(b)
	if err2 != nil {
		return []mapFinding{{"unexplained:pak-to-unmapped-bus:" + m.Name, fmt.Sprintf("%s: pak $%06x -> bus $%06x which BusAddressToPak does not map", m.Name, a, b)}}
	}
	if refmap.ClassOfPak(p2) != refmap.ClassOfPak(a) || p2&0x1FFF != a&0x1FFF {
		sig := "unexplained:pak-collapses-onto-other-memory:" + m.Name
		if m.Name == "lorom" && a >= 0xE70000 && a <= 0xE7FFFF && b == c04LoromF10(a) {
			sig = "lorom-pak-E7xxxx-to-wram"
		}
		return []mapFinding{{sig, fmt.Sprintf("%s: pak $%06x (%v) -> bus $%06x -> pak $%06x (%v): different class or page offset", m.Name, a, refmap.ClassOfPak(a), b, p2, refmap.ClassOfPak(p2))}}
	}
	return nil
}

// alternative model of defect F10: SRAM pak banks 14/15 land in bus banks $7E/$7F (WRAM).
func c04LoromF10(p uint32) uint32 { return (0x70+(p-0xE00000)>>15)<<16 + p&0x7FFF }

func runC04(r *report.Run) {
	var evals, mapped int64
	if strconv.IntSize == 64 {
		evals += mapColdSweep(r, c04CheckAddr)
		r.Set("first_sweep_order", "scrambled (i ^ $5A5A5A), then ascending")
	} else {
		defer func() { mapColdSweep(r, c04CheckAddr) }()
		r.Set("first_sweep_order", "ascending, then scrambled (i ^ $5A5A5A)")
	}
	for mi := range mappers {
		m := &mappers[mi]
		var perMapped int64
		par.For(512, func(_, chunk int) {
			dir := "bus"
			if chunk >= 256 {
				dir = "pak"
			}
			base := uint32(chunk&255) << 16
			var ev, mp int64
			for o := uint32(0); o < 0x10000; o++ {
				a := base | o
				ev++
				var ok bool
				if dir == "bus" {
					_, err, pn := callMap(m.BusToPak, a)
					if pn {
						r.Violation("unexplained:panic:"+m.Name, fmt.Sprintf("%s.BusAddressToPak($%06x) panics", m.Name, a), mapCase{Mapper: m.Name, Dir: dir, Addr: a})
						continue
					}
					ok = err == nil
				} else {
					_, err, pn := callMap(m.PakToBus, a)
					if pn {
						r.Violation("unexplained:panic:"+m.Name, fmt.Sprintf("%s.PakAddressToBus($%06x) panics", m.Name, a), mapCase{Mapper: m.Name, Dir: dir, Addr: a})
						continue
					}
					ok = err == nil
				}
				if !ok {
					continue
				}
				mp++
				for _, f := range c04CheckAddr(m, dir, a) {
					r.Violation(f.sig, f.what, mapCase{Mapper: m.Name, Dir: dir, Addr: a})
				}
			}
			atomic.AddInt64(&evals, ev)
			atomic.AddInt64(&mapped, mp)
			atomic.AddInt64(&perMapped, mp)
		})
		r.Set("mapped_addresses_"+m.Name, perMapped)
	}
	hist := mapNeighbourProbe(r)
	evals += hist
	r.Set("history_probe_calls", hist)
	r.Set("evaluations", evals)
	r.Set("distinct_nontrivial", mapped)
	r.Set("rule", "all 2^24 bus addresses (clause i) and all 2^24 FX Pak Pro addresses (clause ii) for each of the 4 mappers; a case is non-trivial when the address is translated (not the unmapped-error path), and then both directions are really composed on the implementation; first-touch order: the first sweep of the process enumerates the addresses in scrambled order (native build) or ascending order (386 build), the other order follows; history probe: for every address a, every neighbour (a with one of bits 8..23 flipped; a+k for k = 1..5, 16, 256, -1..-4, -16) translated right after a must give the answer it gave in a plain sweep")
	r.Set("exhaustive", true)
	r.Sample(mapCase{Mapper: "lorom", Dir: "bus", Addr: 0xFE0000})
	r.Sample(mapCase{Mapper: "lorom", Dir: "pak", Addr: 0xE70000})
	r.Sample(mapCase{Mapper: "exhirom", Dir: "pak", Addr: 0xBF0000})
	r.Assume("class windows: ROM < $E00000, SRAM $E00000-$EFFFFF, WRAM $F50000-$FFFFFF (the $F7-$FF mirror counted as WRAM as the mapper comments state)")
}

// ---------------------------------------------------------------- C05

func c05CheckAddr(m *mapper, dir string, a uint32) (out []mapFinding) {
	add := func(sig, what string) { out = append(out, mapFinding{sig + ":" + m.Name, what}) }
	if dir == "bus" {
		p, err, pn := callMap(m.BusToPak, a)
		if pn {
			add("unexplained:panic", fmt.Sprintf("%s.BusAddressToPak($%06x) panics", m.Name, a))
			return
		}
		// (a) error => zero result and the unmapped-address error; success => exactly one class window
		if err != nil {
			if p != 0 || err != util.ErrUnmappedAddress {
				add("unexplained:bad-error-result", fmt.Sprintf("%s.BusAddressToPak($%06x) = ($%06x, %v): error result must be (0, ErrUnmappedAddress)", m.Name, a, p, err))
			}
		} else if refmap.StrictClassOfPak(p) == refmap.Unmapped {
			add("unexplained:outside-class-windows", fmt.Sprintf("%s.BusAddressToPak($%06x) = $%06x lies in no class window", m.Name, a, p))
		}
		// (c) console-owned map
		bank, off := a>>16, a&0xFFFF
		sys := bank <= 0x3F || (bank >= 0x80 && bank <= 0xBF)
		switch {
		case bank == 0x7E || bank == 0x7F:
			if err != nil || p != 0xF50000+(a-0x7E0000) {
				add("unexplained:wram-banks", fmt.Sprintf("%s.BusAddressToPak($%06x) = ($%06x,%v), want WRAM $%06x", m.Name, a, p, err, 0xF50000+(a-0x7E0000)))
			}
		case sys && off < 0x2000:
			if err != nil || p != 0xF50000+off {
				add("unexplained:wram-low-mirror", fmt.Sprintf("%s.BusAddressToPak($%06x) = ($%06x,%v), want WRAM mirror $%06x", m.Name, a, p, err, 0xF50000+off))
			}
		case sys && off >= 0x2000 && off < 0x6000:
			if err == nil {
				add("unexplained:register-area-translated", fmt.Sprintf("%s.BusAddressToPak($%06x) = $%06x but $2000-$5FFF of system banks is never translated", m.Name, a, p))
			}
		}
		// (e) class and linear position from the region table
		cls, want := m.Table.Lookup(a)
		if (cls == refmap.Unmapped) != (err != nil) || (err == nil && p != want) {
			add("unexplained:region-table", fmt.Sprintf("%s.BusAddressToPak($%06x) = ($%06x,%v), region table says %v $%06x", m.Name, a, p, err, cls, want))
		}
		// (d) page structure, checked per address against the page base
		pb := a &^ 0x1FFF
		p0, err0, pn0 := callMap(m.BusToPak, pb)
		if !pn0 {
			if (err0 == nil) != (err == nil) {
				add("unexplained:page-not-uniform", fmt.Sprintf("%s: bus $%06x mapped=%v but its page base $%06x mapped=%v", m.Name, a, err == nil, pb, err0 == nil))
			} else if err == nil && p != p0+(a-pb) {
				add("unexplained:page-order", fmt.Sprintf("%s: bus $%06x -> $%06x, page base $%06x -> $%06x: byte order not preserved", m.Name, a, p, pb, p0))
			}
		}
		return
	}
	b, err, pn := callMap(m.PakToBus, a)
	if pn {
		add("unexplained:panic", fmt.Sprintf("%s.PakAddressToBus($%06x) panics", m.Name, a))
		return
	}
	// (b) only $F00000-$F4FFFF is rejected
	rej := a >= 0xF00000 && a <= 0xF4FFFF
	if rej != (err != nil) {
		add("unexplained:pak-reject-window", fmt.Sprintf("%s.PakAddressToBus($%06x) err=%v, want rejected=%v", m.Name, a, err, rej))
	}
	if err != nil {
		if b != 0 || err != util.ErrUnmappedAddress {
			add("unexplained:bad-error-result", fmt.Sprintf("%s.PakAddressToBus($%06x) = ($%06x, %v): error result must be (0, ErrUnmappedAddress)", m.Name, a, b, err))
		}
	} else if b >= 1<<24 {
		add("unexplained:bus-out-of-range", fmt.Sprintf("%s.PakAddressToBus($%06x) = $%x is not a 24-bit bus address", m.Name, a, b))
	}
	pb := a &^ 0x1FFF
	b0, err0, pn0 := callMap(m.PakToBus, pb)
	if !pn0 {
		if (err0 == nil) != (err == nil) {
			add("unexplained:page-not-uniform", fmt.Sprintf("%s: pak $%06x mapped=%v but its page base $%06x mapped=%v", m.Name, a, err == nil, pb, err0 == nil))
		} else if err == nil && b != b0+(a-pb) {
			add("unexplained:page-order", fmt.Sprintf("%s: pak $%06x -> $%06x, page base $%06x -> $%06x: byte order not preserved", m.Name, a, b, pb, b0))
		}
	}
	return
}

// c05SentinelProbe: util.ErrUnmappedAddress is an exported variable; "the unmapped-address error" is whatever
// it holds when the mapper is called. With the sentinel replaced, every mapper must report the replacement.
// (Run before the parallel sweeps: the variable is process-wide.)
func c05SentinelProbe() []mapFinding {
	var out []mapFinding
	orig := util.ErrUnmappedAddress
	mine := fmt.Errorf("replaced unmapped-address error")
	util.ErrUnmappedAddress = mine
	defer func() { util.ErrUnmappedAddress = orig }()
	for mi := range mappers {
		m := &mappers[mi]
		for _, a := range []uint32{0x002000, 0x005FFF, 0x802100, 0xBF4200} {
			if p, err, _ := callMap(m.BusToPak, a); err != nil && (err != mine || p != 0) {
				out = append(out, mapFinding{"unexplained:stale-unmapped-error:" + m.Name, fmt.Sprintf("with util.ErrUnmappedAddress replaced, %s.BusAddressToPak($%06x) = ($%06x, %v): not the error the variable holds now", m.Name, a, p, err)})
				break
			}
		}
		for _, a := range []uint32{0xF00000, 0xF4FFFF} {
			if b, err, _ := callMap(m.PakToBus, a); err != nil && (err != mine || b != 0) {
				out = append(out, mapFinding{"unexplained:stale-unmapped-error:" + m.Name, fmt.Sprintf("with util.ErrUnmappedAddress replaced, %s.PakAddressToBus($%06x) = ($%06x, %v): not the error the variable holds now", m.Name, a, b, err)})
				break
			}
		}
	}
	return out
}

func runC05(r *report.Run) {
	// which packages are LINKED is an input too: each mapper once more in a binary that imports it alone
	if os.Getenv("VERIF_ONE_BINDIR") != "" && strconv.IntSize == 64 {
		var mu sync.Mutex
		ok := 0
		par.For(len(mappers), func(_, i int) {
			m := &mappers[i]
			out, err := mapOneBinary(m.Name)
			mu.Lock()
			defer mu.Unlock()
			switch {
			case err != nil:
				r.Incomplete("single-mapper binary for " + m.Name + " did not run: " + err.Error())
			case strings.HasPrefix(out, "ONE-BAD"):
				f := strings.Fields(out)
				var a uint32
				fmt.Sscanf(f[2], "%x", &a)
				r.Violation("unexplained:linked-alone:"+m.Name, strings.TrimSpace(out), mapCase{Mapper: m.Name, Dir: f[1], Addr: a, LinkedAlone: true})
			case strings.HasPrefix(out, "ONE-OK"):
				ok++
			default:
				r.Incomplete("single-mapper binary for " + m.Name + " printed " + strings.TrimSpace(out))
			}
		})
		r.Set("single_mapper_binaries_ok", ok)
	}
	for _, f := range c05SentinelProbe() {
		r.Violation(f.sig, f.what, mapCase{Mapper: "sentinel", Dir: "bus", Addr: 0x002000})
	}
	for mi := range mappers {
		if err := mappers[mi].Table.Validate(); err != nil {
			fmt.Println("region table self-check failed:", err)
			r.Violation("oracle-broken", err.Error(), nil)
			return
		}
	}
	var evals, mapped int64
	if strconv.IntSize == 64 {
		evals += mapColdSweep(r, c05CheckAddr)
		r.Set("first_sweep_order", "scrambled (i ^ $5A5A5A), then ascending")
	} else {
		defer func() { mapColdSweep(r, c05CheckAddr) }()
		r.Set("first_sweep_order", "ascending, then scrambled (i ^ $5A5A5A)")
	}
	for mi := range mappers {
		m := &mappers[mi]
		var regionsHit [16]int64
		par.For(512, func(_, chunk int) {
			dir := "bus"
			if chunk >= 256 {
				dir = "pak"
			}
			base := uint32(chunk&255) << 16
			var ev, mp int64
			for o := uint32(0); o < 0x10000; o++ {
				a := base | o
				ev++
				fs := c05CheckAddr(m, dir, a)
				for _, f := range fs {
					r.Violation(f.sig, f.what, mapCase{Mapper: m.Name, Dir: dir, Addr: a})
				}
				if dir == "bus" {
					if cls, _ := m.Table.Lookup(a); cls != refmap.Unmapped {
						mp++
					}
				} else if !(a >= 0xF00000 && a <= 0xF4FFFF) {
					mp++
				}
			}
			atomic.AddInt64(&evals, ev)
			atomic.AddInt64(&mapped, mp)
		})
		_ = regionsHit
	}
	// the four mappers are independent of one another: what mapper B answers for an address does not depend
	// on another mapper having just been asked about the same (or the neighbouring) address
	var cross int64
	par.For(512, func(_, chunk int) {
		bus := chunk < 256
		base := uint32(chunk&255) << 16
		var n int64
		fn := func(m *mapper) func(uint32) (uint32, error) {
			if bus {
				return m.BusToPak
			}
			return m.PakToBus
		}
		for o := uint32(0); o < 0x10000; o += 1 {
			a := base | o
			for bi := range mappers {
				fb := fn(&mappers[bi])
				r0, e0, p0 := callMap(fb, a)
				if p0 {
					continue
				}
				for ai := range mappers {
					if ai == bi {
						continue
					}
					callMap(fn(&mappers[ai]), a)
					r1, e1, p1 := callMap(fb, a)
					n += 2
					if p1 || r1 != r0 || (e1 == nil) != (e0 == nil) {
						dir := "bus"
						if !bus {
							dir = "pak"
						}
						r.Violation("unexplained:depends-on-another-mapper:"+mappers[bi].Name, fmt.Sprintf("%s %s->: $%06x translates to ($%06x, %v), but right after %s was asked about the same address to ($%06x, %v)", mappers[bi].Name, dir, a, r0, e0, mappers[ai].Name, r1, e1), mapCase{Mapper: mappers[bi].Name, Dir: dir, Addr: a, PrevMapper: mappers[ai].Name})
						break
					}
				}
			}
		}
		atomic.AddInt64(&cross, n)
	})
	hist := mapNeighbourProbe(r)
	evals += cross + hist
	r.Set("history_probe_calls", hist)
	r.Set("cross_mapper_probe_calls", cross)
	r.Set("evaluations", evals)
	r.Set("distinct_nontrivial", mapped)
	r.Set("rule", "first-touch order: the first sweep of the process enumerates the addresses in scrambled order (native build) or ascending order (386 build), the other order follows; history probe: every neighbour (one of bits 8..23 flipped; a+k for k = 1..5, 16, 256, -1..-4, -16) translated right after a must give the answer of a plain sweep; cross-mapper probe: every address is translated by each mapper again right after each other mapper was asked about it (same answer required); all 2^24 bus addresses and all 2^24 pak addresses x 4 mappers, five facets each (error shape/class windows, pak reject window, console-owned map, 8 KiB page uniformity and order, region table); non-trivial = address inside a mapped region of the reference table (bus) or outside the reject window (pak)")
	r.Set("exhaustive", true)
	r.Set("facets", []string{"a:error-shape+class-window", "b:pak-reject-window", "c:console-owned-map", "d:8KiB-page-uniform+ordered", "e:region-table"})
	r.Sample(mapCase{Mapper: "lorom", Dir: "bus", Addr: 0x7E1234})
	r.Sample(mapCase{Mapper: "sa1rom", Dir: "bus", Addr: 0x446000})
	r.Sample(mapCase{Mapper: "hirom", Dir: "pak", Addr: 0xF4FFFF})
	r.Assume("region tables of internal/refmap (DESIGN.md Appendix C) transcribe the documented maps; they self-check for overlaps and window overflow at start-up")
	r.Assume("Pak->Bus choice of canonical bus window is not pinned by C05 (C04 constrains it)")
}
