package checks

import (
	"bytes"
	"encoding/json"
	"fmt"
	"io"
	"strings"
	"sync"
	"sync/atomic"

	snes "github.com/alttpo/snes"

	"verif/internal/par"
	"verif/internal/report"
)

func init() {
	Registry["C10"] = Check{Level: "model_checking", Run: runC10, Replay: replayC10}
}

// One history on one fresh ROM object: a writer and/or reader opened at Addr,
// then a sequence of Write / Read calls with the given lengths.
type c10Case struct {
	Banks  int    `json:"banks"` // image size = Banks * 0x8000
	Addr   uint32 `json:"addr"`  // bus address the writer/reader is opened at
	Writes []int  `json:"writes,omitempty"`
	Reads  []int  `json:"reads,omitempty"` // buffer sizes; the last one is repeated until EOF/error (bounded)
}

func c10Image(banks int) []byte {
	img := make([]byte, banks*0x8000)
	for i := range img {
		img[i] = byte(i*7+13) ^ byte(i>>8) ^ byte(i>>15)*0x35
	}
	return img
}

type c10Variant int

const (
	c10Ref           c10Variant = iota
	c10WriterExclEnd            // F12: writer window excludes the bank's last byte
	c10Legacy                   // F11+F12: the original guard `len(p) >= o+end` and silent truncation
)

// c10Exec runs the case on the real code and compares with the model variant wv for the
// writer and reader window (readerExcl: F13 alternative, reader misses the bank's last byte).
// Returns "" when everything agrees, else a description of the first disagreement.
func c10Exec(c c10Case, wv c10Variant, readerExcl bool) (diff string) {
	defer func() {
		if x := recover(); x != nil {
			diff = fmt.Sprintf("panic: %v", x)
		}
	}()
	img := c10Image(c.Banks)
	model := append([]byte(nil), img...)
	rom, err := snes.NewROM("t", img)
	if err != nil {
		return "NewROM: " + err.Error()
	}
	bank, off := c.Addr>>16, c.Addr&0xFFFF
	low := off < 0x8000
	start := bank<<15 | (off & 0x7FFF)
	endIncl := bank<<15 | 0x7FFF // last byte of the bank in the file
	wEnd := endIncl + 1          // exclusive
	if wv != c10Ref {
		wEnd = endIncl
	}
	if len(c.Writes) > 0 {
		w := rom.BusWriter(c.Addr)
		o := uint32(0)
		for k, n := range c.Writes {
			p := make([]byte, n)
			for j := range p {
				pos := int(start+o) + j
				if pos < len(model) {
					p[j] = ^model[pos]
				} else {
					p[j] = 0x5A ^ byte(j) ^ byte(k)
				}
			}
			var before []byte
			if low {
				before = append([]byte(nil), img...)
			}
			gn, gerr := w.Write(p)
			if low {
				if gn != 0 || gerr != io.ErrUnexpectedEOF {
					return fmt.Sprintf("write #%d (%d bytes) at offset < $8000 returned (%d,%v), want (0, unexpected EOF)", k, n, gn, gerr)
				}
				if !bytes.Equal(before, img) {
					return fmt.Sprintf("write #%d at offset < $8000 changed the image", k)
				}
				continue
			}
			room := int(wEnd) - int(start+o)
			if room < 0 {
				room = 0
			}
			switch wv {
			case c10Legacy:
				if uint32(n) >= o+endIncl {
					if gn != 0 || gerr != io.ErrUnexpectedEOF {
						return fmt.Sprintf("legacy model: write #%d expected refusal, got (%d,%v)", k, gn, gerr)
					}
				} else {
					m := n
					if m > room {
						m = room
					}
					if gn != m || gerr != nil {
						return fmt.Sprintf("legacy model: write #%d expected (%d,nil), got (%d,%v)", k, m, gn, gerr)
					}
					copy(model[start+o:], p[:m])
					o += uint32(m)
				}
			default:
				if n <= room {
					if gn != n || gerr != nil {
						return fmt.Sprintf("write #%d of %d bytes at window offset %d (room %d) returned (%d,%v), want (%d,nil)", k, n, o, room, gn, gerr, n)
					}
					copy(model[start+o:], p)
					o += uint32(n)
				} else {
					// does not fit: must report an error; n may be any truthful count of bytes stored
					if gerr == nil {
						return fmt.Sprintf("write #%d of %d bytes at window offset %d (room %d) returned (%d,nil): silent partial write", k, n, o, room, gn)
					}
					if gn < 0 || gn > room || gn >= n {
						return fmt.Sprintf("write #%d of %d bytes (room %d) reported n=%d with error %v", k, n, room, gn, gerr)
					}
					copy(model[start+o:], p[:gn])
					o += uint32(gn)
				}
			}
			if !bytes.Equal(model, img) {
				i := 0
				for i < len(img) && img[i] == model[i] {
					i++
				}
				return fmt.Sprintf("after write #%d (%d bytes, returned (%d,%v)) the image differs from the model first at file offset $%06x (window $%06x..$%06x)", k, n, gn, gerr, i, start, endIncl)
			}
		}
	}
	if len(c.Reads) > 0 {
		r := rom.BusReader(c.Addr)
		rEnd := endIncl + 1
		if readerExcl {
			rEnd = endIncl
		}
		var want []byte
		if !low {
			want = model[start:rEnd]
		}
		var got []byte
		snapshot := append([]byte(nil), img...)
		k := 0
		for calls := 0; calls < 0x8000+8; calls++ {
			sz := c.Reads[len(c.Reads)-1]
			if k < len(c.Reads) {
				sz = c.Reads[k]
			}
			k++
			p := make([]byte, sz)
			n, err := r.Read(p)
			if n < 0 || n > sz {
				return fmt.Sprintf("read #%d returned n=%d for a %d-byte buffer", k, n, sz)
			}
			if low {
				if n != 0 || err != io.ErrUnexpectedEOF {
					return fmt.Sprintf("read #%d at offset < $8000 returned (%d,%v), want (0, unexpected EOF)", k, n, err)
				}
				if k >= len(c.Reads) {
					break
				}
				continue
			}
			got = append(got, p[:n]...)
			if err == io.EOF {
				break
			}
			if err != nil {
				return fmt.Sprintf("read #%d returned error %v", k, err)
			}
			if len(got) > len(want)+4 {
				break
			}
			if sz == 0 && k >= len(c.Reads) {
				break
			}
		}
		if !low && !bytes.Equal(got, want) {
			return fmt.Sprintf("reader at $%06x returned %d bytes, want the %d bytes of file offsets $%06x..$%06x (first difference at %d)", c.Addr, len(got), len(want), start, rEnd-1, firstDiff(got, want))
		}
		if !low {
			// after EOF, further reads keep returning EOF and no data
			p := make([]byte, 4)
			if n, err := r.Read(p); n != 0 || err != io.EOF {
				return fmt.Sprintf("read after end returned (%d,%v), want (0,EOF)", n, err)
			}
		}
		if !bytes.Equal(snapshot, img) {
			return "reading changed the image"
		}
	}
	return ""
}

func firstDiff(a, b []byte) int {
	i := 0
	for i < len(a) && i < len(b) && a[i] == b[i] {
		i++
	}
	return i
}

// c10Classify runs the case against the reference and, on disagreement, against the
// alternative models; the signature names the model that reproduces the behaviour.
func c10Classify(c c10Case) (sig, what string) {
	d := c10Exec(c, c10Ref, false)
	if d == "" {
		return "", ""
	}
	what = fmt.Sprintf("banks=%d addr=$%06x writes=%v reads=%v: %s", c.Banks, c.Addr, c.Writes, c.Reads, d)
	if len(c.Reads) > 0 && c10Exec(c, c10Ref, true) == "" {
		return "reader-window-excludes-last-byte-of-bank", what
	}
	if len(c.Writes) > 0 {
		if c10Exec(c, c10WriterExclEnd, false) == "" || c10Exec(c, c10WriterExclEnd, true) == "" {
			return "writer-window-excludes-last-byte-of-bank", what
		}
		if c10Exec(c, c10Legacy, false) == "" || c10Exec(c, c10Legacy, true) == "" {
			return "writer-legacy-length-guard", what
		}
	}
	return "unexplained", what
}

// ---- several writers and readers on one ROM: each has its own window and cursor

type c10MultiOp struct {
	W   int `json:"writer"`
	Len int `json:"len"`
}

type c10Multi struct {
	Banks int          `json:"banks"`
	Addrs []uint32     `json:"writer_addrs"`
	Ops   []c10MultiOp `json:"ops"`
	// Readers: the streams are BusReaders (each op reads Len bytes); interleaved they must return what
	// each returns when it is the only reader (differential, independent of where the window ends)
	Readers bool `json:"readers,omitempty"`
}

func c10MultiReaders(c c10Multi) (sig, what string) {
	defer func() {
		if x := recover(); x != nil {
			sig, what = "unexplained:multi-reader", fmt.Sprintf("%+v: panic %v", c, x)
		}
	}()
	img := c10Image(c.Banks)
	snap := append([]byte(nil), img...)
	rom, err := snes.NewROM("t", img)
	if err != nil {
		return "bad-case", err.Error()
	}
	type res struct {
		data string
		err  string
	}
	run := func(only int) [][]res {
		rs := make([]io.Reader, len(c.Addrs))
		for i, a := range c.Addrs {
			if only < 0 || only == i {
				rs[i] = rom.BusReader(a)
			}
		}
		out := make([][]res, len(c.Addrs))
		for _, op := range c.Ops {
			if only >= 0 && op.W != only {
				continue
			}
			p := make([]byte, op.Len)
			n, e := rs[op.W].Read(p)
			if n < 0 || n > op.Len {
				n = 0
			}
			out[op.W] = append(out[op.W], res{string(p[:n]), fmt.Sprint(e)})
		}
		return out
	}
	together := run(-1)
	for i := range c.Addrs {
		alone := run(i)
		if fmt.Sprint(together[i]) != fmt.Sprint(alone[i]) {
			return "unexplained:multi-reader", fmt.Sprintf("%+v: reader %d at $%06x returns %d results %q interleaved with the other reader, %q when it is the only one: the readers are not independent", c, i, c.Addrs[i], len(together[i]), fmt.Sprint(together[i]), fmt.Sprint(alone[i]))
		}
	}
	if !bytes.Equal(img, snap) {
		return "unexplained:multi-reader", fmt.Sprintf("%+v: reading changed the image", c)
	}
	return "", ""
}

func c10MultiRun(c c10Multi) (sig, what string) {
	defer func() {
		if x := recover(); x != nil {
			sig, what = "unexplained:multi-writer", fmt.Sprintf("%+v: panic %v", c, x)
		}
	}()
	img := c10Image(c.Banks)
	model := append([]byte(nil), img...)
	rom, err := snes.NewROM("t", img)
	if err != nil {
		return "bad-case", err.Error()
	}
	ws := make([]io.Writer, len(c.Addrs))
	cur := make([]uint32, len(c.Addrs))
	for i, a := range c.Addrs {
		ws[i] = rom.BusWriter(a)
	}
	for k, op := range c.Ops {
		a := c.Addrs[op.W]
		start := a>>16<<15 | a&0x7FFF
		end := a>>16<<15 | 0x7FFF
		room := int(end+1) - int(start+cur[op.W])
		p := make([]byte, op.Len)
		for j := range p {
			p[j] = byte(0xC0 + 16*op.W + k*3 + j)
		}
		gn, gerr := ws[op.W].Write(p)
		if op.Len <= room {
			if gn != op.Len || gerr != nil {
				return "unexplained:multi-writer", fmt.Sprintf("%+v: op #%d: writer %d (cursor %d, room %d) returned (%d,%v), want (%d,nil)", c, k, op.W, cur[op.W], room, gn, gerr, op.Len)
			}
			copy(model[start+cur[op.W]:], p)
			cur[op.W] += uint32(op.Len)
		} else {
			if gerr == nil || gn < 0 || gn >= op.Len || gn > room {
				return "unexplained:multi-writer", fmt.Sprintf("%+v: op #%d: writer %d (room %d) returned (%d,%v) for %d bytes", c, k, op.W, room, gn, gerr, op.Len)
			}
			copy(model[start+cur[op.W]:], p[:gn])
			cur[op.W] += uint32(gn)
		}
		if !bytes.Equal(model, img) {
			return "unexplained:multi-writer", fmt.Sprintf("%+v: after op #%d the image differs from the model at file offset $%06x: the writers are not independent", c, k, firstDiff(img, model))
		}
	}
	return "", ""
}

// c10Alias: the slice handed to Write is a view of the image itself that overlaps the destination (moving
// data inside the ROM): the writer must store the bytes the slice held when Write was called.
type c10Alias struct {
	AliasBanks int    `json:"alias_banks"`
	Addr       uint32 `json:"addr"`
	Len        int    `json:"len"`
	Delta      int    `json:"delta"` // source file offset - destination file offset
}

func c10AliasRun(c c10Alias) (sig, what string) {
	defer func() {
		if x := recover(); x != nil {
			sig, what = "unexplained:aliased-write", fmt.Sprintf("%+v: panic %v", c, x)
		}
	}()
	img := c10Image(c.AliasBanks)
	rom, err := snes.NewROM("t", img)
	if err != nil {
		return "bad-case", err.Error()
	}
	dst := int(c.Addr>>16<<15 | c.Addr&0x7FFF)
	src := dst + c.Delta
	if src < 0 || src+c.Len > len(img) || dst+c.Len > int(c.Addr>>16<<15)+0x8000 {
		return "", ""
	}
	model := append([]byte(nil), img...)
	copy(model[dst:], append([]byte(nil), img[src:src+c.Len]...))
	n, werr := rom.BusWriter(c.Addr).Write(rom.Contents[src : src+c.Len])
	if n != c.Len || werr != nil {
		return "unexplained:aliased-write", fmt.Sprintf("%+v: Write of a %d-byte view of the image returned (%d,%v)", c, c.Len, n, werr)
	}
	if !bytes.Equal(img, model) {
		return "unexplained:aliased-write", fmt.Sprintf("%+v: after writing the image's own bytes $%06x..$%06x to $%06x the image differs from a move of those bytes at file offset $%06x", c, src, src+c.Len-1, dst, firstDiff(img, model))
	}
	return "", ""
}

type c10IOCase struct {
	IOBanks int    `json:"io_banks"`
	Addr    uint32 `json:"addr"`
	First   int    `json:"first"`
	Len     int    `json:"len"`
}

// c10ViaIO: a plain Write of `first` bytes, then `l` bytes through io.WriteString and again (fresh ROM) through
// io.Copy from a strings.Reader; then the window is read back with io.ReadAll. All-or-error, nothing outside.
func c10ViaIO(addr uint32, first, l int) (sig, what string) {
	defer func() {
		if x := recover(); x != nil {
			sig, what = "unexplained:io-helper", fmt.Sprintf("addr $%06x first %d len %d: panic %v", addr, first, l, x)
		}
	}()
	for _, how := range []string{"io.WriteString", "io.Copy"} {
		img := c10Image(2)
		model := append([]byte(nil), img...)
		rom, err := snes.NewROM("t", img)
		if err != nil {
			return "bad-case", err.Error()
		}
		start := int(addr>>16<<15 | addr&0x7FFF)
		end := int(addr>>16<<15) + 0x8000
		w := rom.BusWriter(addr)
		cur := start
		if first > 0 && cur+first <= end {
			p := bytes.Repeat([]byte{0x6B}, first)
			if n, e := w.Write(p); n != first || e != nil {
				return "unexplained:io-helper", fmt.Sprintf("plain Write of %d bytes at $%06x returned (%d,%v)", first, addr, n, e)
			}
			copy(model[cur:], p)
			cur += first
		}
		text := strings.Repeat("TITLE-TEXT-", 5)[:l]
		var n int64
		var werr error
		if how == "io.WriteString" {
			var k int
			k, werr = io.WriteString(w, text)
			n = int64(k)
		} else {
			n, werr = io.Copy(w, strings.NewReader(text))
		}
		if cur+l <= end {
			if n != int64(l) || werr != nil {
				return "unexplained:io-helper", fmt.Sprintf("%s of %d bytes (room %d) through the writer at $%06x returned (%d,%v)", how, l, end-cur, addr, n, werr)
			}
			copy(model[cur:], text)
		} else {
			if werr == nil {
				return "unexplained:io-helper", fmt.Sprintf("%s of %d bytes with only %d bytes of room in the bank returned (%d,nil): silent partial write", how, l, end-cur, n)
			}
			if n < 0 || n > int64(end-cur) {
				return "unexplained:io-helper", fmt.Sprintf("%s of %d bytes (room %d) reported n=%d", how, l, end-cur, n)
			}
			copy(model[cur:], text[:n])
		}
		if !bytes.Equal(img, model) {
			return "unexplained:io-helper", fmt.Sprintf("after %s of %d bytes (room %d) at $%06x the image differs from the model at file offset $%06x", how, l, end-cur, addr, firstDiff(img, model))
		}
	}
	return "", ""
}

// c10LiveCase: the reader is opened BEFORE the write (an editor keeps a reader on the title while it patches
// it): Pre bytes are read, then WLen bytes are written at Addr+WOff through a writer, then RLen bytes are
// read -- they are the bytes the image holds NOW at the reader's position.
type c10LiveCase struct {
	LiveBanks int    `json:"live_banks"`
	Addr      uint32 `json:"addr"`
	Pre       int    `json:"pre"`
	WOff      int    `json:"w_off"`
	WLen      int    `json:"w_len"`
	RLen      int    `json:"r_len"`
}

func c10LiveRun(c c10LiveCase) (sig, what string) {
	defer func() {
		if x := recover(); x != nil {
			sig, what = "unexplained:reader-opened-before-write", fmt.Sprintf("%+v: panic %v", c, x)
		}
	}()
	img := c10Image(c.LiveBanks)
	rom, err := snes.NewROM("t", img)
	if err != nil {
		return "bad-case", err.Error()
	}
	start := int(c.Addr>>16<<15 | c.Addr&0x7FFF)
	end := int(c.Addr>>16<<15) + 0x8000
	rd := rom.BusReader(c.Addr)
	pos := start
	if c.Pre > 0 {
		n, _ := rd.Read(make([]byte, c.Pre))
		pos += n
	}
	p := make([]byte, c.WLen)
	for i := range p {
		p[i] = byte(0x50 + i)
	}
	if n, e := rom.BusWriter(c.Addr + uint32(c.WOff)).Write(p); n != c.WLen || e != nil {
		return "", "" // the write itself is judged by the other facets
	}
	got := make([]byte, c.RLen)
	n, e := rd.Read(got)
	if n < 0 || n > c.RLen {
		n = 0
	}
	want := c.RLen
	if pos+want >= end {
		return "", "" // reads reaching the end of the bank are judged by the window facet (and its recorded finding)
	}
	if n != want || (e != nil && n > 0 && e != io.EOF) || !bytes.Equal(got[:n], rom.Contents[pos:pos+n]) {
		return "unexplained:reader-opened-before-write", fmt.Sprintf("%+v: a reader opened at $%06x before %d bytes were written at $%06x returns (%d,%v) % x; the image holds % x there now", c, c.Addr, c.WLen, c.Addr+uint32(c.WOff), n, e, got[:n], rom.Contents[pos:pos+want])
	}
	return "", ""
}

type c10Swap struct {
	SwapBanks int    `json:"swap_banks"`
	Addr      uint32 `json:"addr"`
	Grow      int    `json:"grow"`
}

func c10SwapRun(addr uint32, grow int) (sig, what string) {
	defer func() {
		if x := recover(); x != nil {
			sig, what = "unexplained:image-replaced", fmt.Sprintf("addr $%06x grow %d: panic %v", addr, grow, x)
		}
	}()
	img := c10Image(2)
	rom, err := snes.NewROM("t", img)
	if err != nil {
		return "bad-case", err.Error()
	}
	w := rom.BusWriter(addr)
	fresh := make([]byte, len(img)+grow)
	copy(fresh, img)
	rom.Contents = fresh // same bytes, other storage (and possibly more of it)
	p := []byte{0xDE, 0xAD, 0xBE, 0xEF}
	room := 0x8000 - int(addr&0x7FFF)
	if len(p) > room {
		p = p[:room]
	}
	n, werr := w.Write(p)
	if n != len(p) || werr != nil {
		return "unexplained:image-replaced", fmt.Sprintf("Write after the image was replaced returned (%d,%v)", n, werr)
	}
	off := int(addr>>16<<15 | addr&0x7FFF)
	if !bytes.Equal(rom.Contents[off:off+len(p)], p) {
		return "unexplained:image-replaced", fmt.Sprintf("writer obtained at $%06x, then ROM.Contents replaced by a copy (%d bytes longer): Write reports (%d,nil) but the ROM's image holds % x at that place, not % x", addr, grow, n, rom.Contents[off:off+len(p)], p)
	}
	got := make([]byte, len(p))
	if k, _ := rom.BusReader(addr).Read(got); k > len(got) || !bytes.Equal(got[:k], p[:k]) || k == 0 && len(p) > 1 {
		return "unexplained:image-replaced", fmt.Sprintf("a reader at $%06x returns % x after % x was written there", addr, got[:k], p)
	}
	return "", ""
}

func c10MultiCases(depth int) []c10Multi {
	pairs := [][]uint32{{0x00FFF0, 0x00FFF0}, {0x00FFF0, 0x00FFF8}, {0x00FFE0, 0x01FFE8}, {0x018000, 0x008000}}
	lens := []int{1, 3, 8, 17}
	var out []c10Multi
	for _, pr := range pairs {
		var rec func(p []c10MultiOp, d int)
		rec = func(p []c10MultiOp, d int) {
			if len(p) > 1 {
				out = append(out, c10Multi{Banks: 2, Addrs: pr, Ops: append([]c10MultiOp(nil), p...)})
			}
			if d == 0 {
				return
			}
			for w := 0; w < 2; w++ {
				for _, l := range lens {
					rec(append(p, c10MultiOp{w, l}), d-1)
				}
			}
		}
		rec(nil, depth)
	}
	return out
}

func replayC10(raw json.RawMessage) (string, error) {
	var ic c10IOCase
	if json.Unmarshal(raw, &ic) == nil && ic.IOBanks > 0 {
		sig, what := c10ViaIO(ic.Addr, ic.First, ic.Len)
		if sig == "" {
			return "writes through io.WriteString / io.Copy are all-or-error and stay in the window", nil
		}
		return what, fmt.Errorf("%s", sig)
	}
	var lc c10LiveCase
	if json.Unmarshal(raw, &lc) == nil && lc.LiveBanks > 0 {
		sig, what := c10LiveRun(lc)
		if sig == "" {
			return "the reader returns what the image holds at the time of the read", nil
		}
		return what, fmt.Errorf("%s", sig)
	}
	var sc c10Swap
	if json.Unmarshal(raw, &sc) == nil && sc.SwapBanks > 0 {
		sig, what := c10SwapRun(sc.Addr, sc.Grow)
		if sig == "" {
			return "writer and reader use the image the ROM holds at the time of the call", nil
		}
		return what, fmt.Errorf("%s", sig)
	}
	var ac c10Alias
	if json.Unmarshal(raw, &ac) == nil && ac.AliasBanks > 0 {
		sig, what := c10AliasRun(ac)
		if sig == "" {
			return "the aliased write moves the bytes as a copy would", nil
		}
		return what, fmt.Errorf("%s", sig)
	}
	var mc c10Multi
	if json.Unmarshal(raw, &mc) == nil && len(mc.Addrs) > 0 {
		if mc.Readers {
			sig, what := c10MultiReaders(mc)
			if sig == "" {
				return "each reader returns what it returns alone", nil
			}
			return what, fmt.Errorf("%s", sig)
		}
		sig, what := c10MultiRun(mc)
		if sig == "" {
			return "the writers behave independently as the window model says", nil
		}
		return what, fmt.Errorf("%s", sig)
	}
	var c c10Case
	if err := json.Unmarshal(raw, &c); err != nil {
		return "", err
	}
	sig, what := c10Classify(c)
	if sig == "" {
		return "agrees with the window model", nil
	}
	return what, fmt.Errorf("%s", sig)
}

func runC10(r *report.Run) {
	thorough := r.Tier == "thorough"
	var cases []c10Case
	// (A) single-call sweeps: every bank inside the image x boundary offsets x lengths
	bankCounts := []int{1, 2, 3, 4}
	if thorough {
		bankCounts = append(bankCounts, 0x80)
	}
	lens := []int{0, 1, 2, 3, 4, 0x7FFF, 0x8000, 0x8001}
	offs := map[uint32]bool{}
	for _, c := range []uint32{0x0000, 0x7FFF, 0x8000, 0xFFFF} {
		for d := -5; d <= 5; d++ {
			o := int(c) + d
			if o >= 0 && o <= 0xFFFF {
				offs[uint32(o)] = true
			}
		}
	}
	for o := uint32(0); o <= 0xFFFF; o += 0x1000 {
		offs[o] = true
	}
	if thorough {
		for o := uint32(0); o <= 0xFFFF; o += 0x101 {
			offs[o] = true
		}
	}
	var offList []uint32
	for o := uint32(0); o <= 0xFFFF; o++ {
		if offs[o] {
			offList = append(offList, o)
		}
	}
	for _, nb := range bankCounts {
		for b := 0; b < nb; b++ {
			if nb == 0x80 && !(b < 2 || b > 0x7D || b == 0x3F || b == 0x40) {
				continue
			}
			for _, o := range offList {
				a := uint32(b)<<16 | o
				for _, l := range lens {
					cases = append(cases, c10Case{Banks: nb, Addr: a, Writes: []int{l}, Reads: []int{0x8000}})
					cases = append(cases, c10Case{Banks: nb, Addr: a, Reads: []int{l, 0x8000}})
				}
				for _, rs := range []int{1, 2, 3} {
					if o >= 0xFF00 || o < 0x8000 { // small buffers only near the end (many calls)
						cases = append(cases, c10Case{Banks: nb, Addr: a, Reads: []int{rs}})
					}
				}
			}
		}
	}
	if !thorough {
		// banks >= $40 on a 4 MiB image (reduced set; the thorough tier sweeps them like the small images)
		for _, b := range []uint32{0x3F, 0x40, 0x7F} {
			for _, o := range []uint32{0x7FFF, 0x8000, 0xFFFE, 0xFFFF} {
				for _, l := range []int{1, 2, 3} {
					cases = append(cases, c10Case{Banks: 0x80, Addr: b<<16 | o, Writes: []int{l}, Reads: []int{0x8000}})
				}
			}
		}
	}
	// banks >= $80 lie inside the image only when it is larger than 4 MiB: an 8 MiB image (both tiers)
	for _, b := range []uint32{0x7F, 0x80, 0x81, 0xFE, 0xFF} {
		for _, o := range []uint32{0x7FFF, 0x8000, 0xFFF0, 0xFFFF} {
			for _, l := range []int{1, 3} {
				cases = append(cases, c10Case{Banks: 0x100, Addr: b<<16 | o, Writes: []int{l}, Reads: []int{0x8000}})
			}
		}
	}
	// (B) write histories up to depth 4 (thorough 5), then a reader at the same address
	wl := []int{0, 1, 2, 3, 0x7FFE, 0x7FFF, 0x8000}
	depth := 4
	if thorough {
		depth = 5
	}
	starts := []uint32{0x8000, 0x8001, 0xFFFC, 0xFFFD, 0xFFFE, 0xFFFF}
	var gen func(prefix []int, d int, f func([]int))
	gen = func(prefix []int, d int, f func([]int)) {
		if len(prefix) > 0 {
			f(prefix)
		}
		if d == 0 {
			return
		}
		for _, l := range wl {
			gen(append(append([]int(nil), prefix...), l), d-1, f)
		}
	}
	for _, b := range []uint32{0, 1} {
		for _, s := range starts {
			a := b<<16 | s
			gen(nil, depth, func(h []int) {
				cases = append(cases, c10Case{Banks: 2, Addr: a, Writes: h, Reads: []int{0x8000}})
			})
		}
	}
	var transitions, nontrivial int64
	states := map[string]struct{}{}
	var smu sync.Mutex
	par.For(len(cases), func(_, i int) {
		c := cases[i]
		sig, what := c10Classify(c)
		if sig != "" {
			r.Violation(sig, what, c)
		}
		atomic.AddInt64(&transitions, int64(len(c.Writes)+len(c.Reads)))
		// abstract state reached: (window start, cursor clipped to the window, reader opened)
		cur := 0
		for _, w := range c.Writes {
			cur += w
		}
		if cur > 0x8002 {
			cur = 0x8002
		}
		key := fmt.Sprintf("%d/%06x/%d/%v", c.Banks, c.Addr, cur, len(c.Reads) > 0)
		smu.Lock()
		states[key] = struct{}{}
		smu.Unlock()
		if c.Addr&0xFFFF >= 0x8000 {
			atomic.AddInt64(&nontrivial, 1)
		}
	})
	// (C) two writers on one ROM, interleaved
	multi := c10MultiCases(depth)
	var nm int64
	par.For(len(multi), func(_, i int) {
		atomic.AddInt64(&nm, int64(len(multi[i].Ops)))
		if sig, what := c10MultiRun(multi[i]); sig != "" {
			r.ViolationSized(sig, what, multi[i], len(multi[i].Ops))
		}
	})
	// writes whose source is an overlapping view of the image itself
	var na int64
	for _, addr := range []uint32{0x008010, 0x018013, 0x00FFE0, 0x018000} {
		for _, l := range []int{1, 2, 8, 16, 33} {
			for _, d := range []int{-40, -33, -16, -3, -1, 0, 1, 3, 16, 33, 40} {
				ac := c10Alias{2, addr, l, d}
				na++
				if sig, what := c10AliasRun(ac); sig != "" {
					r.ViolationSized(sig, what, ac, l)
				}
			}
		}
	}
	transitions += na
	r.Set("aliased_source_writes", na)
	// ROM.Contents is an exported field: the caller may replace the image (grow it, swap in a copy) between
	// obtaining a writer/reader and using it; the writer stores into, and a new reader reads from, the image
	// the ROM holds at that moment
	var ns int64
	for _, addr := range []uint32{0x008000, 0x00FFF0, 0x018001} {
		for _, grow := range []int{0, 0x8000} {
			ns++
			if sig, what := c10SwapRun(addr, grow); sig != "" {
				r.Violation(sig, what, c10Swap{2, addr, grow})
			}
		}
	}
	transitions += 3 * ns
	r.Set("image_replaced_between_calls", ns)
	// the standard library looks for optional interfaces (io.StringWriter, io.ReaderFrom, io.WriterTo) and
	// bypasses Write/Read when it finds them: text written with io.WriteString, data moved with io.Copy
	var ni int64
	for _, addr := range []uint32{0x008000, 0x00FFE0, 0x00FFF0, 0x018001} {
		for _, l := range []int{0, 1, 16, 21, 40} {
			for _, first := range []int{0, 16} {
				ni++
				if sig, what := c10ViaIO(addr, first, l); sig != "" {
					r.Violation(sig, what, c10IOCase{2, addr, first, l})
				}
			}
		}
	}
	transitions += 3 * ni
	r.Set("writes_and_reads_through_io_helpers", ni)
	// a reader opened before the image is written through a writer
	var nl int64
	for _, addr := range []uint32{0x008000, 0x01C000, 0x00FFF0, 0x018001} {
		for _, pre := range []int{0, 3} {
			for _, woff := range []int{0, 2, 5} {
				for _, wl := range []int{1, 8} {
					for _, rl := range []int{4, 16, 40} {
						nl++
						c := c10LiveCase{2, addr, pre, woff, wl, rl}
						if sig, what := c10LiveRun(c); sig != "" {
							r.Violation(sig, what, c)
						}
					}
				}
			}
		}
	}
	transitions += 3 * nl
	r.Set("reader_opened_before_write", nl)
	// the same op sequences with two READERS, interleaved vs alone
	var nr int64
	par.For(len(multi), func(_, i int) {
		mr := multi[i]
		mr.Readers = true
		atomic.AddInt64(&nr, int64(len(mr.Ops)))
		if sig, what := c10MultiReaders(mr); sig != "" {
			r.ViolationSized(sig, what, mr, len(mr.Ops))
		}
	})
	transitions += nm + nr
	r.Set("two_reader_histories", int64(len(multi)))
	r.Set("two_writer_histories", int64(len(multi)))
	r.Set("states", int64(len(states))+int64(len(multi)))
	r.Set("transitions", transitions)
	r.Set("traces_validated_against_impl", int64(len(cases)+len(multi)))
	r.Set("evaluations", int64(len(cases)))
	r.Set("distinct_nontrivial", nontrivial)
	r.Set("rule", "every (image size, bank inside the image, boundary offset, length) single write/read, and every write history up to the stated depth over the length alphabet from the boundary start offsets, each followed by a reader at the same address; writes whose source is an overlapping view of the image itself (must act like a move), interleaved histories of two writers, and of two readers (each must return what it returns alone), on one ROM; every call is executed on a fresh real ROM object and compared with the window model (full image compare after each write); non-trivial = address in the ROM half of a bank")
	r.Set("bounds", map[string]interface{}{"image_banks": bankCounts, "lengths": lens, "history_depth": depth, "history_lengths": wl, "history_starts": starts, "offsets": len(offList)})
	r.Set("exhaustive", true)
	r.Sample(c10Case{Banks: 2, Addr: 0x00FFFE, Writes: []int{4}, Reads: []int{0x8000}})
	r.Sample(c10Case{Banks: 2, Addr: 0x01FFFC, Writes: []int{1, 2, 1}, Reads: []int{0x8000}})
	r.Sample(c10Case{Banks: 1, Addr: 0x007FFF, Reads: []int{2}})
	r.Assume("images whose last bank is only partly present are outside the property's premise and are not enumerated")
	r.Assume("a refused write may store a truthful prefix (io.Writer contract): the model follows the reported n and checks it")
}
