package checks

import (
	"bytes"
	"encoding/json"
	"fmt"
	"strings"
	"sync/atomic"

	"github.com/alttpo/snes/asm"

	"verif/internal/par"
	"verif/internal/report"
)

func init() {
	Registry["C15"] = Check{Level: "model_checking", Run: runC15, Replay: replayC15}
}

func listingOf(f func(w *bytes.Buffer) error) (out string, err error, pn interface{}) {
	var b bytes.Buffer
	func() {
		defer func() { pn = recover() }()
		err = f(&b)
	}()
	return b.String(), err, pn
}

// hexListingBytes extracts, in order, every 0x??, token left of any // on each line.
func hexListingBytes(s string) ([]byte, string) {
	var out []byte
	for _, line := range strings.Split(s, "\n") {
		if i := strings.Index(line, "//"); i >= 0 {
			line = line[:i]
		}
		for _, tok := range strings.Fields(line) {
			if len(tok) == 5 && tok[0] == '0' && tok[1] == 'x' && tok[4] == ',' {
				v, ok := hexVal(tok[2:4])
				if !ok {
					return nil, "bad token " + tok
				}
				out = append(out, byte(v))
			} else {
				return nil, "unexpected token " + tok + " left of the comment"
			}
		}
	}
	return out, ""
}

func parseHexBytes(s string) ([]byte, bool) {
	var out []byte
	for _, tok := range strings.Fields(s) {
		v, ok := hexVal(tok)
		if !ok || len(tok) != 2 {
			return nil, false
		}
		out = append(out, byte(v))
	}
	return out, true
}

// checkTextListing walks the text listing item by item against the model.
func checkTextListing(text string, m *asmModel, cur []byte) string {
	lines := strings.Split(strings.TrimRight(text, "\n"), "\n")
	if text == "" {
		lines = nil
	}
	li := 0
	next := func() (string, bool) {
		if li >= len(lines) {
			return "", false
		}
		li++
		return lines[li-1], true
	}
	// base directive: owed to the first line-producing item issued after SetBase
	pendingBase := m.baseSet
	if !m.baseSet && len(lines) > 0 && strings.HasPrefix(strings.TrimSpace(lines[0]), "base ") {
		return fmt.Sprintf("listing starts with %q but no base was set", lines[0])
	}
	for k, it := range m.items {
		if pendingBase && k >= m.baseAt && (it.kind != itData || len(it.bytes) > 0) {
			pendingBase = false
			l, ok := next()
			want := fmt.Sprintf("base $%06x", m.base&0xFFFFFF)
			if !ok || strings.TrimSpace(l) != want {
				return fmt.Sprintf("listing line %d is %q, want the base directive %q before anything issued after SetBase", li, l, want)
			}
		}
		switch it.kind {
		case itLabel:
			l, ok := next()
			if !ok || strings.TrimSpace(l) != it.text+":" {
				return fmt.Sprintf("item %d: want label line %q, got %q", k, it.text+":", l)
			}
		case itComment:
			l, ok := next()
			if !ok || strings.TrimSpace(l) != strings.TrimSpace("; "+it.text) {
				return fmt.Sprintf("item %d: want comment line %q, got %q", k, "; "+it.text, l)
			}
		case itInstr:
			l, ok := next()
			if !ok {
				return fmt.Sprintf("item %d: instruction at $%06x has no listing line", k, it.addr)
			}
			i := strings.Index(l, "; $")
			if i < 0 || len(l) < i+9 {
				return fmt.Sprintf("item %d: instruction line %q has no address column", k, l)
			}
			a, ok1 := hexVal(l[i+3 : i+9])
			rest := l[i+9:]
			if j := strings.Index(rest, "!!"); j >= 0 {
				rest = rest[:j]
			}
			bs, ok2 := parseHexBytes(rest)
			if !ok1 || !ok2 {
				return fmt.Sprintf("item %d: cannot parse address/bytes of %q", k, l)
			}
			off := int(it.addr - m.base)
			if a != it.addr&0xFFFFFF { // the listing prints 24-bit addresses
				return fmt.Sprintf("item %d: line %q shows address $%06x, the instruction sits at $%06x", k, l, a, it.addr)
			}
			if !bytes.Equal(bs, cur[off:off+len(it.bytes)]) {
				return fmt.Sprintf("item %d: line %q shows bytes % x, Bytes() holds % x at $%06x", k, l, bs, cur[off:off+len(it.bytes)], it.addr)
			}
		case itData:
			covered := 0
			for covered < len(it.bytes) {
				h, ok := next()
				if !ok {
					return fmt.Sprintf("item %d: data block at $%06x (%d bytes): listing ends after %d bytes", k, it.addr, len(it.bytes), covered)
				}
				i := strings.Index(h, "; $")
				if i < 0 || len(h) < i+9 {
					return fmt.Sprintf("item %d: want data header '; $addr', got %q", k, h)
				}
				a, ok1 := hexVal(h[i+3 : i+9])
				if !ok1 || a != (it.addr+uint32(covered))&0xFFFFFF {
					return fmt.Sprintf("item %d: data header %q, want address $%06x", k, h, it.addr+uint32(covered))
				}
				d, ok := next()
				ds := strings.TrimSpace(d)
				if !ok || !strings.HasPrefix(ds, "db ") {
					return fmt.Sprintf("item %d: want a db line after %q, got %q", k, h, d)
				}
				var bs []byte
				for _, tok := range strings.Split(ds[3:], ",") {
					tok = strings.TrimSpace(tok)
					if len(tok) != 3 || tok[0] != '$' {
						return fmt.Sprintf("item %d: bad db token %q in %q", k, tok, d)
					}
					v, okv := hexVal(tok[1:])
					if !okv {
						return fmt.Sprintf("item %d: bad db token %q", k, tok)
					}
					bs = append(bs, byte(v))
				}
				off := int(it.addr-m.base) + covered
				if len(bs) == 0 || covered+len(bs) > len(it.bytes) || !bytes.Equal(bs, cur[off:off+len(bs)]) {
					return fmt.Sprintf("item %d: db line %q at $%06x does not match Bytes() % x", k, d, a, cur[off:min(off+len(bs), len(cur))])
				}
				covered += len(bs)
			}
		}
	}
	if pendingBase && li < len(lines) && strings.HasPrefix(strings.TrimSpace(lines[li]), "base ") {
		li++ // nothing was issued after SetBase: a base line is tolerated, not required
	}
	if li != len(lines) {
		return fmt.Sprintf("listing has %d extra line(s) starting with %q", len(lines)-li, lines[li])
	}
	return ""
}

func min(a, b int) int {
	if a < b {
		return a
	}
	return b
}

// checkListings takes both listings of e and compares them with Bytes() and the model.
func checkListings(e *asm.Emitter, m *asmModel, when string) string {
	before := append([]byte(nil), e.Bytes()...)
	hex, err, pn := listingOf(func(w *bytes.Buffer) error { return e.WriteHexTo(w) })
	if pn != nil || err != nil {
		return fmt.Sprintf("WriteHexTo %s failed: err=%v panic=%v", when, err, pn)
	}
	got, bad := hexListingBytes(hex)
	if bad != "" {
		return fmt.Sprintf("hex listing %s: %s", when, bad)
	}
	if !bytes.Equal(got, before) {
		return fmt.Sprintf("hex listing %s holds %d bytes % x, Bytes() is %d bytes % x", when, len(got), got, len(before), before)
	}
	text, err, pn := listingOf(func(w *bytes.Buffer) error { return e.WriteTextTo(w) })
	if pn != nil || err != nil {
		return fmt.Sprintf("WriteTextTo %s failed: err=%v panic=%v", when, err, pn)
	}
	if d := checkTextListing(text, m, before); d != "" {
		return fmt.Sprintf("text listing %s: %s", when, d)
	}
	if !bytes.Equal(e.Bytes(), before) {
		return "producing the listings changed Bytes()"
	}
	// the writer is the caller's: a second rendering into a writer that already holds text appends the
	// same listing (nothing is consumed by the first rendering, nothing already written is disturbed)
	for _, k := range []struct {
		name  string
		first string
		f     func(w *bytes.Buffer) error
	}{{"WriteTextTo", text, func(w *bytes.Buffer) error { return e.WriteTextTo(w) }}, {"WriteHexTo", hex, func(w *bytes.Buffer) error { return e.WriteHexTo(w) }}} {
		var b bytes.Buffer
		b.WriteString("; already there\n")
		var pn2 interface{}
		var err2 error
		func() {
			defer func() { pn2 = recover() }()
			err2 = k.f(&b)
		}()
		if pn2 != nil || err2 != nil {
			return fmt.Sprintf("a second %s %s failed: err=%v panic=%v", k.name, when, err2, pn2)
		}
		if b.String() != "; already there\n"+k.first {
			return fmt.Sprintf("a second %s %s into a writer that already holds a line produced %q, the first rendering was %q", k.name, when, b.String(), k.first)
		}
	}
	return ""
}

func c15Classify(d string) string {
	if strings.Contains(d, "hex listing") && strings.Contains(d, "Bytes() is") {
		return "hex-listing-data-block-repeats-total-length"
	}
	if strings.Contains(d, "WriteHexTo") && strings.Contains(d, "slice bounds out of range") {
		return "hex-listing-data-block-repeats-total-length"
	}
	if strings.Contains(d, "want the base directive") {
		return "base-directive-after-leading-label"
	}
	return "unexplained:listing"
}

func c15RunOps(v asmVariant, capacity int, ops []asmOp) string {
	// the item list the listings are walked against is what the real emitter itself did, call by call
	// (accepted or not, which bytes, at which offset): acceptance, encoding and capacity are not C15's
	e, m, refused := runObservedRefusals(v, capacity, ops)
	if refused != 0 {
		// "a program that fit in the buffer": a call refused here but accepted with ample room was refused
		// for lack of space (C19's subject); the listings of such a history are not judged
		if _, _, roomy := runObservedRefusals(v, capacity+1024, ops); roomy != refused {
			return ""
		}
	}
	if d := checkListings(e, m, "before Finalize"); d != "" {
		return d
	}
	_ = e.Finalize()
	return checkListings(e, m, "after Finalize")
}

func replayC15(raw json.RawMessage) (string, error) {
	var h asmHistory
	if err := json.Unmarshal(raw, &h); err != nil {
		return "", err
	}
	ops, err := c15Ops(h.Ops)
	if err != nil {
		return "", err
	}
	if d := c15RunOps(h.Variant, h.Capacity, ops); d != "" {
		return fmt.Sprintf("%+v capacity %d %v: %s", h.Variant, h.Capacity, h.Ops, d), fmt.Errorf("%s", c15Classify(d))
	}
	return "both listings reproduce Bytes() and the issued items", nil
}

// c15Ops resolves op names, additionally accepting EmitBytes(n) for any n (data-length sweep).
func c15Ops(names []string) ([]asmOp, error) {
	var out []asmOp
	for _, n := range names {
		var k int
		if _, err := fmt.Sscanf(n, "EmitBytes(%d)", &k); err == nil {
			kk := k
			out = append(out, asmOp{name: n, real: func(e *asm.Emitter) { emitBytesAndScribble(e, dataBlock(kk)) }, model: func(m *asmModel) bool { return !m.emit(itData, dataBlock(kk), -1) }, kind: itData})
			continue
		}
		var an, ad int
		if _, err := fmt.Sscanf(n, "EmitBytesAliased(%d,%d)", &an, &ad); err == nil {
			// the data block is a view of the emitter's own target buffer that overlaps the place it is
			// emitted to (the caller prepared it in the free part of its buffer, or repeats emitted bytes)
			nn, dd := an, ad
			out = append(out, asmOp{name: n, kind: itData, real: func(e *asm.Emitter) {
				t := e.Bytes()
				t = t[:cap(t)]
				off := e.Len()
				for i := off; i < len(t); i++ {
					t[i] = byte(0x31 + i*5)
				}
				e.EmitBytes(t[off+dd : off+dd+nn])
			}, model: func(m *asmModel) bool { return true }})
			continue
		}
		o, err := opsByName([]string{n})
		if err != nil {
			return nil, err
		}
		out = append(out, o...)
	}
	return out, nil
}

func runC15(r *report.Run) {
	thorough := r.Tier == "thorough"
	depth := 4
	if thorough {
		depth = 5
	}
	var variants []asmVariant
	for _, v := range asmVariants() {
		if v.Listing {
			variants = append(variants, v)
		}
	}
	variants = append(variants, asmVariantsPre()...) // a comment or label issued before SetBase
	// a base at the very end of the uint32 range: the running address wraps to 0 inside the program
	variants = append(variants, asmVariant{true, true, 0xFFFFFFF0, 0})
	hist, trans, _ := asmHistorySearch(depth, variants, func(v asmVariant, al []asmOp, idx []int) (string, string, int, *asmHistory) {
		ops := make([]asmOp, len(idx))
		for i, k := range idx {
			ops[i] = al[k]
		}
		if d := c15RunOps(v, 256, ops); d != "" {
			return c15Classify(d), fmt.Sprintf("%+v %v: %s", v, historyNames(al, idx), d), 1, nil
		}
		return "", "", 1, nil
	}, r, 256)
	// every instruction method that takes no label, and comments / labels with non-ASCII text, format verbs
	// and invalid UTF-8, as symbols: all histories of length <= 2 over the extended alphabet, two variants
	{
		ext := append(asmMethodOps(), asmTextOps()...)
		h2, t2, _ := asmHistorySearch(2, variants[:2], func(v asmVariant, al []asmOp, idx []int) (string, string, int, *asmHistory) {
			ops := make([]asmOp, len(idx))
			for i, k := range idx {
				ops[i] = al[k]
			}
			if d := c15RunOps(v, 256, ops); d != "" {
				return c15Classify(d), fmt.Sprintf("%+v %v: %s", v, historyNames(al, idx), d), 1, nil
			}
			return "", "", 1, nil
		}, r, 256, ext...)
		hist, trans = hist+h2, trans+t2
		r.Set("method_and_text_symbols", len(ext))
	}
	// data-length sweep
	type dl struct {
		v   asmVariant
		ops []string
		cap int
	}
	var sweep []dl
	maxLen := 70
	if thorough {
		maxLen = 300
	}
	for _, v := range variants {
		for n := 0; n <= maxLen; n++ {
			eb := fmt.Sprintf("EmitBytes(%d)", n)
			sweep = append(sweep,
				dl{v, []string{eb}, n}, // exactly-sized buffer
				dl{v, []string{eb}, n + 16},
				dl{v, []string{"LDA_abs($1234)", eb}, n + 3},
				dl{v, []string{eb, "JSL($123456)"}, n + 4},
				dl{v, []string{"Label(a)", eb, "BRA(a)", eb, "Comment(5 chars)"}, 2*n + 2},
			)
		}
	}
	// long programs (120 and 300 calls)
	for _, v := range variants {
		for salt, n := range []int{120, 300} {
			sweep = append(sweep, dl{v, opNames(asmLongProgram(n, salt)), 16384})
		}
		if v.Base == 0x008000 && v.Pre == 0 {
			// ... and one whose listings run to well over 64 KiB of text
			sweep = append(sweep, dl{v, opNames(asmLongProgram(2500, 3)), 1 << 17})
		}
	}
	// data blocks that alias the target buffer and overlap their destination
	for _, v := range variants {
		for _, n := range []int{1, 8, 16, 17, 33} {
			for _, d := range []int{-3, -1, 1, 4, 16, 33} {
				ea := fmt.Sprintf("EmitBytesAliased(%d,%d)", n, d)
				sweep = append(sweep, dl{v, []string{"LDA_abs($1234)", "NOP", ea, "NOP"}, 4 + 2*n + 40})
			}
		}
	}
	var nd int64
	par.For(len(sweep), func(_, i int) {
		s := sweep[i]
		ops, err := c15Ops(s.ops)
		if err != nil {
			r.Violation("oracle-broken", err.Error(), nil)
			return
		}
		atomic.AddInt64(&nd, 1)
		if d := c15RunOps(s.v, s.cap, ops); d != "" {
			r.Violation(c15Classify(d), fmt.Sprintf("%+v capacity %d %v: %s", s.v, s.cap, s.ops, d), asmHistory{Variant: s.v, Ops: s.ops, Capacity: s.cap})
		}
	})
	r.Set("states", hist+nd)
	r.Set("transitions", trans+nd)
	r.Set("traces_validated_against_impl", hist+nd)
	r.Set("evaluations", 2*(hist+nd))
	r.Set("distinct_nontrivial", hist+nd)
	r.Set("histories", hist)
	r.Set("data_length_cases", nd)
	r.Set("bounds", map[string]interface{}{"history_depth": depth, "alphabet": len(asmAlphabet()), "constructor_variants": len(variants), "data_lengths": fmt.Sprintf("0..%d", maxLen)})
	r.Set("rule", "every call sequence up to the depth with listing generation on under every base variant (base unset, four bases, a comment or label issued before SetBase, and a base sixteen below 2^32 so that the running address wraps), listings taken before and after Finalize: the hex listing's 0x??, tokens left of any // must concatenate to exactly Bytes(); the text listing is walked item by item against the reference model (base directive before the first line issued after SetBase, label/comment lines where issued, instruction lines with the true address and the bytes Bytes() holds there, data blocks covered contiguously exactly once); no error, no panic, Bytes() unchanged; plus a data-length sweep 0..N alone, next to instructions and in an exactly-sized buffer, and data blocks that are overlapping views of the target buffer itself")
	r.Sample(asmHistory{Variant: variants[2], Ops: []string{"Label(a)", "EmitBytes(17)", "BNE(a)", "Comment(200 chars)"}, Capacity: 256})
	r.Assume("the 16-per-line chunking of data blocks is not required, only contiguous exact coverage")
}
