package checks

import (
	"bytes"
	"encoding/json"
	"fmt"
	"sort"
	"sync"
	"sync/atomic"

	"github.com/alttpo/snes/emulator/bus"

	"verif/internal/par"
	"verif/internal/report"
)

func init() {
	Registry["C13"] = Check{GC: 25, Level: "model_checking", Run: runC13, Replay: replayC13}
}

type c13Access struct {
	Mem   int
	Addr  uint32
	Write bool
	Val   byte
}

type c13Mem struct {
	id  int
	log *[]c13Access
	w   *c13World // for the memory's own bus access (see c13World.nest)
}

func c13Val(id int, a uint32) byte {
	return byte(a*7+uint32(id)*61+3) ^ byte(a>>8)*5 ^ byte(a>>16)*3 ^ byte(id<<6)
}
func (m *c13Mem) Read(a uint32) byte {
	if m.w != nil && m.w.inNest {
		return c13Val(m.id, a)
	}
	*m.log = append(*m.log, c13Access{m.id, a, false, 0})
	m.nested()
	return c13Val(m.id, a)
}
func (m *c13Mem) Write(a uint32, v byte) {
	if m.w != nil && m.w.inNest {
		return
	}
	*m.log = append(*m.log, c13Access{m.id, a, true, v})
	m.nested()
}

// nested: while serving an access the memory makes a bus access of its own at another attached address
// (a device that forwards a mirror does this); the bus must not lose its place in the outer operation
func (m *c13Mem) nested() {
	if w := m.w; w != nil && w.nest {
		w.inNest = true
		func() {
			defer func() { _ = recover() }()
			w.b.EaRead(w.nestAddr)
		}()
		w.inNest = false
	}
}
func (m *c13Mem) Shutdown()              {}
func (m *c13Mem) Size() uint32           { return 0 }
func (m *c13Mem) Clear()                 {}
func (m *c13Mem) Dump(uint32) []byte     { return nil }

type c13Attach struct {
	Mem   int    `json:"mem"`
	Start uint32 `json:"start"`
	End   uint32 `json:"end"`
}

type c13Case struct {
	Base  uint32      `json:"base"` // address of the first window segment
	Segs  int         `json:"segs"`
	Mems  int         `json:"mems"`
	Path  []c13Attach `json:"path"`
	Probe string      `json:"probe,omitempty"`
	// Touch: the last Attach of Path is made on a LIVE bus -- the address TouchAddr was read (written) just
	// before it, and is the first address accessed after it
	Touch      bool   `json:"touch,omitempty"`
	TouchAddr  uint32 `json:"touch_addr,omitempty"`
	TouchWrite bool   `json:"touch_write,omitempty"`
}

// c13TouchRun: banks are switched while the machine runs. Path minus its last Attach is replayed on a fresh
// bus, TouchAddr is accessed, the last Attach is made, and the very next access -- at TouchAddr again, then
// a write there -- must go to the memory now attached over it (whatever the bus remembers about its last
// access must not outlive the Attach).
func c13TouchRun(c c13Case) (sig, what string) {
	n := len(c.Path)
	if n == 0 {
		return "", ""
	}
	pre := c
	pre.Path = c.Path[:n-1]
	w, m, err := c13Replay(pre)
	if err != nil {
		return "", ""
	}
	if c.TouchWrite {
		c13SafeWrite(w, c.TouchAddr, 0x5A)
	} else {
		c13SafeRead(w, c.TouchAddr)
	}
	t := c.Path[n-1]
	aerr := w.b.Attach(w.mems[t.Mem-1], "m", t.Start, t.End)
	if ok := m.attach(t); ok != (aerr == nil) {
		return "unexplained:attach-result", fmt.Sprintf("attach %+v on a live bus: error=%v, model accepts=%v", t, aerr, ok)
	}
	own := m.owner(c.TouchAddr)
	if own == 0 {
		return "", ""
	}
	kind := map[bool]string{false: "read", true: "written"}[c.TouchWrite]
	w.log = w.log[:0]
	v, p := c13SafeRead(w, c.TouchAddr)
	if p || len(w.log) != 1 || w.log[0] != (c13Access{own, c.TouchAddr, false, 0}) || v != c13Val(own, c.TouchAddr) {
		return "unexplained:routing-after-access-then-attach", fmt.Sprintf("after %+v, $%06x was %s, then %+v was attached: the next read of $%06x went to %v (panic %v, value $%02x), want memory %d", pre.Path, c.TouchAddr, kind, t, c.TouchAddr, w.log, p, v, own)
	}
	w.log = w.log[:0]
	p = c13SafeWrite(w, c.TouchAddr, 0xA7)
	if p || len(w.log) != 1 || w.log[0] != (c13Access{own, c.TouchAddr, true, 0xA7}) {
		return "unexplained:routing-after-access-then-attach", fmt.Sprintf("after %+v, $%06x was %s, then %+v was attached: the next write to $%06x went to %v (panic %v), want memory %d", pre.Path, c.TouchAddr, kind, t, c.TouchAddr, w.log, p, own)
	}
	return "", ""
}

// world = a fresh real bus + instrumented memories
type c13World struct {
	b    *bus.Bus
	mems []*c13Mem
	log  []c13Access
	// nest: the memories re-enter the bus at nestAddr during every access
	nest     bool
	inNest   bool
	nestAddr uint32
}

func c13New(nm int) *c13World {
	w := &c13World{}
	w.b, _ = bus.New()
	for i := 0; i < nm; i++ {
		w.mems = append(w.mems, &c13Mem{id: i + 1, log: &w.log, w: w})
	}
	return w
}

// window description: segs window segments starting at base, plus one guard segment on each
// side where the address space allows it.
type c13Win struct {
	base uint32
	segs int
	lo   uint32 // first probed address (guard included)
	hi   uint32 // last probed address (guard included)
}

func c13Window(base uint32, segs int) c13Win {
	w := c13Win{base: base, segs: segs, lo: base, hi: base + uint32(segs)*16 - 1}
	if base >= 16 {
		w.lo = base - 16
	}
	if uint64(w.hi)+16 <= 0xFFFFFF {
		w.hi += 16
	}
	return w
}

// owner model: owners[i] for segment index i relative to win.lo>>4
type c13Model struct {
	win    c13Win
	owners []int
}

func c13NewModel(win c13Win) *c13Model {
	return &c13Model{win: win, owners: make([]int, (win.hi-win.lo+1)/16)}
}
func (m *c13Model) owner(a uint32) int { return m.owners[(a-m.win.lo)>>4] }
func (m *c13Model) attach(t c13Attach) bool {
	if t.Start&15 != 0 || (t.End+1)&15 != 0 {
		return false
	}
	for a := t.Start; a <= t.End; a += 16 {
		m.owners[(a-m.win.lo)>>4] = t.Mem
		if a+16 < a {
			break
		}
	}
	return true
}
func (m *c13Model) key() string { return fmt.Sprint(m.owners) }

func c13SafeRead(w *c13World, a uint32) (v byte, panicked bool) {
	defer func() {
		if recover() != nil {
			panicked = true
		}
	}()
	v = w.b.EaRead(a)
	return
}
func c13SafeWrite(w *c13World, a uint32, v byte) (panicked bool) {
	defer func() {
		if recover() != nil {
			panicked = true
		}
	}()
	w.b.EaWrite(a, v)
	return
}

// legacy EaDump model (defect F14): the per-segment counter starts at 0 even for an
// unaligned start, so addresses of the next segment are read through the previous segment's memory.
func c13LegacyDump(m *c13Model, s, e uint32, sentinel byte) []byte {
	out := make([]byte, e-s+1)
	for i := range out {
		out[i] = sentinel
	}
	a := s
	i := 0
	for k := s >> 4; k <= e>>4; k++ {
		own := m.owners[k-(m.win.lo>>4)]
		for n := 0; a <= e && n < 16; n++ {
			if own != 0 {
				out[i] = c13Val(own, a)
			}
			a++
			i++
		}
	}
	return out
}

// c13CheckState runs all per-state obligations on a world whose routing should equal m.
// c13Read24 probes EaRead24_wrap(bank, addr): the three bytes lie at addr, addr+1, addr+2 wrapping
// inside the bank; each must be read from the memory attached over its own address with the full
// address (order of the three reads is not pinned); an unattached byte makes the call fail.
func c13Read24(w *c13World, a uint32, owner func(uint32) int) (sig, what string) {
	bank, addr := byte(a>>16), uint16(a)
	var want []c13Access
	var wantVal uint32
	hole := false
	for k := 0; k < 3; k++ {
		aa := uint32(bank)<<16 | uint32(addr+uint16(k))
		o := owner(aa)
		if o == 0 {
			hole = true
			continue
		}
		want = append(want, c13Access{o, aa, false, 0})
		wantVal |= uint32(c13Val(o, aa)) << (8 * k)
	}
	w.log = w.log[:0]
	var got uint32
	panicked := func() (p bool) {
		defer func() {
			if recover() != nil {
				p = true
			}
		}()
		got = w.b.EaRead24_wrap(bank, addr)
		return false
	}()
	switch {
	case hole && !panicked:
		return "unexplained:unattached-read-does-not-fail", fmt.Sprintf("EaRead24_wrap($%02x,$%04x) touches a never-attached address but returned $%06x (memories saw %v)", bank, addr, got, w.log)
	case hole:
		return "", ""
	case panicked:
		return "unexplained:attached-read-panics", fmt.Sprintf("EaRead24_wrap($%02x,$%04x) panicked although all three bytes are attached", bank, addr)
	}
	seen := append([]c13Access(nil), w.log...)
	sort.Slice(seen, func(i, j int) bool { return seen[i].Addr < seen[j].Addr })
	sw := append([]c13Access(nil), want...)
	sort.Slice(sw, func(i, j int) bool { return sw[i].Addr < sw[j].Addr })
	if !c13LogEq(seen, sw) || got != wantVal {
		return "unexplained:read-misrouted", fmt.Sprintf("EaRead24_wrap($%02x,$%04x) = $%06x: memories saw %v, want %v and value $%06x", bank, addr, got, w.log, want, wantVal)
	}
	return "", ""
}

func c13CheckState(w *c13World, m *c13Model, report func(sig, what, probe string)) (evals int64) {
	win := m.win
	// the memories call back into the bus at the highest attached address of the window
	w.nest = false
	for i := len(m.owners) - 1; i >= 0; i-- {
		if m.owners[i] != 0 {
			w.nest, w.nestAddr = true, win.lo+uint32(i)*16+9
			break
		}
	}
	defer func() { w.nest = false }()
	// byte-wise routing
	for a := win.lo; ; a++ {
		own := m.owner(a)
		w.log = w.log[:0]
		v, p := c13SafeRead(w, a)
		evals++
		switch {
		case own == 0 && !p:
			report("unexplained:unattached-read-does-not-fail", fmt.Sprintf("read of never-attached $%06x returned $%02x (log %v)", a, v, w.log), fmt.Sprintf("read %06x", a))
		case own != 0 && p:
			report("unexplained:attached-read-panics", fmt.Sprintf("read of $%06x (attached to memory %d) panicked", a, own), fmt.Sprintf("read %06x", a))
		case own != 0:
			if len(w.log) != 1 || w.log[0] != (c13Access{own, a, false, 0}) || v != c13Val(own, a) {
				report("unexplained:read-misrouted", fmt.Sprintf("read of $%06x should reach memory %d with address $%06x; memories saw %v, value $%02x", a, own, a, w.log, v), fmt.Sprintf("read %06x", a))
			}
		}
		w.log = w.log[:0]
		val := byte(a) ^ 0x5A
		p = c13SafeWrite(w, a, val)
		evals++
		switch {
		case own == 0 && !p:
			report("unexplained:unattached-write-does-not-fail", fmt.Sprintf("write to never-attached $%06x did not fail (log %v)", a, w.log), fmt.Sprintf("write %06x", a))
		case own != 0 && p:
			report("unexplained:attached-write-panics", fmt.Sprintf("write to $%06x (attached to memory %d) panicked", a, own), fmt.Sprintf("write %06x", a))
		case own != 0:
			if len(w.log) != 1 || w.log[0] != (c13Access{own, a, true, val}) {
				report("unexplained:write-misrouted", fmt.Sprintf("write to $%06x should reach memory %d with address $%06x value $%02x; memories saw %v", a, own, a, val, w.log), fmt.Sprintf("write %06x", a))
			}
		}
		if a == win.hi {
			break
		}
	}
	// 24-bit reads (in-bank wrap) starting at every window address
	winOwner := func(a uint32) int {
		if a < win.lo || a > win.hi {
			return 0
		}
		return m.owner(a)
	}
	for a := win.lo; ; a++ {
		evals++
		if sig, what := c13Read24(w, a, winOwner); sig != "" {
			report(sig, what, fmt.Sprintf("read24 %06x", a))
		}
		if a == win.hi {
			break
		}
	}
	// EaDump for every s <= e
	const sentinel = 0xE7
	buf := make([]byte, int(win.hi-win.lo)+1+8)
	for s := win.lo; ; s++ {
		for e := s; ; e++ {
			n := int(e - s + 1)
			for i := range buf {
				buf[i] = sentinel
			}
			evals++
			got, panicked := func() (r int, p bool) {
				defer func() {
					if recover() != nil {
						p = true
					}
				}()
				return w.b.EaDump(s, e, buf), false
			}()
			bad := ""
			if panicked {
				bad = "panicked"
			} else if got != n {
				bad = fmt.Sprintf("returned %d, want %d", got, n)
			} else {
				for i := 0; i < len(buf); i++ {
					want := byte(sentinel)
					if i < n {
						if own := m.owner(s + uint32(i)); own != 0 {
							want = c13Val(own, s+uint32(i))
						}
					}
					if buf[i] != want {
						bad = fmt.Sprintf("position %d holds $%02x, want $%02x (address $%06x owner %d)", i, buf[i], want, s+uint32(i), func() int {
							if i < n {
								return m.owner(s + uint32(i))
							}
							return -1
						}())
						break
					}
				}
			}
			if bad != "" {
				sig := "unexplained:eadump"
				if !panicked && got == n {
					leg := c13LegacyDump(m, s, e, sentinel)
					same := true
					for i := 0; i < n; i++ {
						if buf[i] != leg[i] {
							same = false
						}
					}
					for i := n; i < len(buf); i++ {
						if buf[i] != sentinel {
							same = false
						}
					}
					if same && s&15 != 0 {
						sig = "eadump-unaligned-start-reads-through-previous-segment"
					}
				}
				report(sig, fmt.Sprintf("EaDump($%06x,$%06x) with owners %v: %s", s, e, m.owners, bad), fmt.Sprintf("dump %06x %06x", s, e))
			}
			if e == win.hi {
				break
			}
		}
		if s == win.hi {
			break
		}
	}
	return
}

// observed routing key: probe one address per segment
func c13Observe(w *c13World, win c13Win) string {
	var owners []int
	for a := win.lo; ; a += 16 {
		w.log = w.log[:0]
		_, p := c13SafeRead(w, a+5)
		o := 0
		if !p && len(w.log) == 1 {
			o = w.log[0].Mem
		} else if !p {
			o = -1
		}
		owners = append(owners, o)
		if a+16 > win.hi {
			break
		}
	}
	return fmt.Sprint(owners)
}

func c13Transitions(win c13Win, base uint32, segs, nm int) (good, bad []c13Attach) {
	for k := 1; k <= nm; k++ {
		for i := 0; i < segs; i++ {
			for j := i; j < segs; j++ {
				s, e := base+uint32(i)*16, base+uint32(j)*16+15
				good = append(good, c13Attach{k, s, e})
				if k == 1 {
					for _, d := range []uint32{1, 8, 15} {
						bad = append(bad, c13Attach{k, s + d, e}, c13Attach{k, s, e - d}, c13Attach{k, s + d, e - d})
					}
				}
			}
		}
	}
	return
}

// c13Replay builds a fresh world and replays path; returns the world and model.
func c13Replay(c c13Case) (*c13World, *c13Model, error) {
	win := c13Window(c.Base, c.Segs)
	w := c13New(c.Mems)
	m := c13NewModel(win)
	for i, t := range c.Path {
		if t.End < t.Start {
			// an empty or inverted range: accepted or refused, it names no address
			func() {
				defer func() { _ = recover() }()
				_ = w.b.Attach(w.mems[t.Mem-1], "m", t.Start, t.End)
			}()
			continue
		}
		err := w.b.Attach(w.mems[t.Mem-1], "m", t.Start, t.End)
		ok := m.attach(t)
		if ok != (err == nil) {
			return w, m, fmt.Errorf("attach #%d %+v: error=%v, model accepts=%v", i, t, err, ok)
		}
	}
	return w, m, nil
}

// ---- large ranges: whole address space, halves, ranges ending at $FFFFFF / starting at 0, single
// segments at both ends. Every sequence up to the depth is executed on a fresh bus and a set of probe
// addresses (each range's edges, one segment inside and outside) is read and written.

type c13BigCase struct {
	Big  []c13Attach `json:"big_ranges"`
	Mems int         `json:"mems"`
}

var c13BigRanges = [][2]uint32{{0x000000, 0xFFFFFF}, {0x000000, 0x7FFFFF}, {0x800000, 0xFFFFFF}, {0x00FFF0, 0xFFFFFF}, {0x000000, 0xFF000F},
	{0xFFFFF0, 0xFFFFFF}, {0x000000, 0x00000F}, {0x7FFFF0, 0x80000F}}

func c13BigProbes() []uint32 {
	set := map[uint32]bool{}
	for _, r := range c13BigRanges {
		for _, a := range []uint32{r[0], r[0] + 15, r[1] - 15, r[1]} {
			set[a] = true
			if a >= 16 {
				set[a-16] = true
			}
			if a+16 <= 0xFFFFFF {
				set[a+16] = true
			}
		}
	}
	set[0x400000], set[0xC00008] = true, true
	var out []uint32
	for a := range set {
		out = append(out, a)
	}
	sort.Slice(out, func(i, j int) bool { return out[i] < out[j] })
	return out
}

func c13BigRun(c c13BigCase) (sig, what string) {
	w := c13New(c.Mems)
	owner := func(a uint32) int {
		o := 0
		for _, t := range c.Big {
			if a >= t.Start && a <= t.End {
				o = t.Mem
			}
		}
		return o
	}
	for i, t := range c.Big {
		if err := w.b.Attach(w.mems[t.Mem-1], "m", t.Start, t.End); err != nil {
			return "unexplained:attach-result", fmt.Sprintf("aligned Attach #%d ($%06x,$%06x) rejected: %v", i, t.Start, t.End, err)
		}
	}
	for _, a := range c13BigProbes() {
		own := owner(a)
		w.log = w.log[:0]
		v, p := c13SafeRead(w, a)
		switch {
		case own == 0 && !p:
			return "unexplained:unattached-read-does-not-fail", fmt.Sprintf("after %+v: read of never-attached $%06x returned $%02x", c.Big, a, v)
		case own != 0 && (p || len(w.log) != 1 || w.log[0] != (c13Access{own, a, false, 0}) || v != c13Val(own, a)):
			return "unexplained:read-misrouted", fmt.Sprintf("after %+v: read of $%06x should reach memory %d with the full address; panicked=%v, memories saw %v", c.Big, a, own, p, w.log)
		}
		w.log = w.log[:0]
		p = c13SafeWrite(w, a, 0x3C)
		switch {
		case own == 0 && !p:
			return "unexplained:unattached-write-does-not-fail", fmt.Sprintf("after %+v: write to never-attached $%06x did not fail", c.Big, a)
		case own != 0 && (p || len(w.log) != 1 || w.log[0] != (c13Access{own, a, true, 0x3C})):
			return "unexplained:write-misrouted", fmt.Sprintf("after %+v: write to $%06x should reach memory %d; panicked=%v, memories saw %v", c.Big, a, own, p, w.log)
		}
	}
	for _, a := range []uint32{0x00FFFD, 0x00FFFE, 0x00FFFF, 0xFFFFFD, 0xFFFFFE, 0xFFFFFF, 0x7FFFFE, 0x7FFFFF, 0x800000, 0x00000D, 0x00000E, 0x00000F, 0xFF000E, 0xFF000F, 0xFFFFED, 0xFFFFEE, 0xFFFFEF, 0x00FFEE, 0x00FFEF} {
		if sig, what := c13Read24(w, a, owner); sig != "" {
			return sig, fmt.Sprintf("after %+v: %s", c.Big, what)
		}
	}
	return "", ""
}

func c13BigCases(depth, nm int) []c13BigCase {
	var syms []c13Attach
	for k := 1; k <= nm; k++ {
		for _, r := range c13BigRanges {
			syms = append(syms, c13Attach{k, r[0], r[1]})
		}
	}
	var out []c13BigCase
	var rec func(p []c13Attach, d int)
	rec = func(p []c13Attach, d int) {
		if len(p) > 0 {
			out = append(out, c13BigCase{append([]c13Attach(nil), p...), nm})
		}
		if d == 0 {
			return
		}
		for _, s := range syms {
			rec(append(p, s), d-1)
		}
	}
	rec(nil, depth)
	return out
}

type c13ForkCase struct {
	Fork bool `json:"fork"`
}

// c13ForkRun: a Bus copied by value (a machine forked by copying its struct) is a bus of its own: an Attach on
// either of the two does not re-route the other.
func c13ForkRun() (sig, what string) {
	w := c13New(3)
	if err := w.b.Attach(w.mems[0], "a", 0x008000, 0x00801F); err != nil {
		return "unexplained:attach-result", err.Error()
	}
	fork := *w.b
	if err := fork.Attach(w.mems[1], "b", 0x008010, 0x00802F); err != nil {
		return "unexplained:attach-result", err.Error()
	}
	if err := w.b.Attach(w.mems[2], "c", 0x008040, 0x00804F); err != nil {
		return "unexplained:attach-result", err.Error()
	}
	type exp struct {
		a           uint32
		base, forkd int // owner seen through the original / through the copy (0 = never attached)
	}
	for _, e := range []exp{{0x008000, 1, 1}, {0x008010, 1, 2}, {0x00801F, 1, 2}, {0x008020, 0, 2}, {0x00802F, 0, 2}, {0x008030, 0, 0}, {0x008040, 3, 0}, {0x00804F, 3, 0}} {
		for k, b := range []*bus.Bus{w.b, &fork} {
			want := e.base
			name := "the original bus"
			if k == 1 {
				want, name = e.forkd, "the copied bus"
			}
			w.log = w.log[:0]
			var v byte
			panicked := func() (p bool) {
				defer func() {
					if recover() != nil {
						p = true
					}
				}()
				v = b.EaRead(e.a)
				return false
			}()
			switch {
			case want == 0 && !panicked:
				return "unexplained:copied-bus-shares-routing", fmt.Sprintf("%s: $%06x was never attached on it, yet the read returned $%02x (memories saw %v): an Attach on the other bus re-routed this one", name, e.a, v, w.log)
			case want != 0 && (panicked || len(w.log) != 1 || w.log[0].Mem != want):
				return "unexplained:copied-bus-shares-routing", fmt.Sprintf("%s: the read of $%06x should reach memory %d; panicked=%v, memories saw %v", name, e.a, want, panicked, w.log)
			}
		}
	}
	return "", ""
}

type c13ManyCase struct {
	ManyAttaches int `json:"many_attaches"`
}

func c13ManyRun(n int) (sig, what string) {
	w := c13New(3)
	for i := 0; i < n; i++ {
		cell := uint32(i%7) * 16
		if err := w.b.Attach(w.mems[i%3], "m", 0x123400+cell, 0x123400+cell+15+uint32(i%2)*16); err != nil {
			return "unexplained:attach-result", fmt.Sprintf("aligned Attach #%d rejected: %v", i, err)
		}
	}
	owner := map[uint32]int{}
	for i := 0; i < n; i++ {
		cell := uint32(i%7) * 16
		for c := uint32(0); c <= uint32(i%2); c++ {
			owner[0x123400+cell+c*16] = i%3 + 1
		}
	}
	for base, own := range owner {
		for _, a := range []uint32{base, base + 15} {
			w.log = w.log[:0]
			v, p := c13SafeRead(w, a)
			if p || len(w.log) != 1 || w.log[0] != (c13Access{own, a, false, 0}) || v != c13Val(own, a) {
				return "unexplained:read-misrouted", fmt.Sprintf("after %d Attach calls on one bus, the read of $%06x should reach memory %d (the last one attached there); panicked=%v, memories saw %v", n, a, own, p, w.log)
			}
		}
	}
	return "", ""
}

func replayC13(raw json.RawMessage) (string, error) {
	var tc c13Case
	if json.Unmarshal(raw, &tc) == nil && tc.Touch {
		sig, what := c13TouchRun(tc)
		if sig == "" {
			return "the first access after the Attach goes to the memory attached last", nil
		}
		return what, fmt.Errorf("%s", sig)
	}
	var fk c13ForkCase
	if json.Unmarshal(raw, &fk) == nil && fk.Fork {
		sig, what := c13ForkRun()
		if sig == "" {
			return "a bus copied by value routes on its own", nil
		}
		return what, fmt.Errorf("%s", sig)
	}
	var many c13ManyCase
	if json.Unmarshal(raw, &many) == nil && many.ManyAttaches > 0 {
		sig, what := c13ManyRun(many.ManyAttaches)
		if sig == "" {
			return "routing after very many Attach calls is that of the last Attach over each cell", nil
		}
		return what, fmt.Errorf("%s", sig)
	}
	var rc c13RealCase
	if json.Unmarshal(raw, &rc) == nil && (rc.RealBase != 0 || bytes.Contains(raw, []byte("real_base"))) {
		sig, what := c13RealRun(rc)
		if sig == "" {
			return "routing to the library's RAM/ROM objects agrees with the owner map", nil
		}
		return what, fmt.Errorf("%s", sig)
	}
	var oc c13AltOddCase
	if json.Unmarshal(raw, &oc) == nil && oc.OddEnd != 0 {
		sig, what := c13AltOddRun(oc)
		if sig == "" {
			return "every address inside the range reaches the reader/writer attached over it", nil
		}
		return what, fmt.Errorf("%s", sig)
	}
	var ac c13AltCase
	if json.Unmarshal(raw, &ac) == nil && ac.AltSegs > 0 {
		sig, what := c13AltReplayCase(ac)
		if sig == "" {
			return "cpualt.Bus routing agrees with the model in this state", nil
		}
		return what, fmt.Errorf("%s", sig)
	}
	var bc c13BigCase
	if json.Unmarshal(raw, &bc) == nil && len(bc.Big) > 0 {
		sig, what := c13BigRun(bc)
		if sig == "" {
			return "routing after the large attaches agrees with the model", nil
		}
		return what, fmt.Errorf("%s", sig)
	}
	var c c13Case
	if err := json.Unmarshal(raw, &c); err != nil {
		return "", err
	}
	w, m, err := c13Replay(c)
	if err != nil {
		return err.Error(), fmt.Errorf("unexplained:attach-result")
	}
	if obs := c13Observe(w, m.win); obs != m.key() {
		return fmt.Sprintf("routing %s, model %s", obs, m.key()), fmt.Errorf("unexplained:routing")
	}
	var first, firstSig string
	c13CheckState(w, m, func(sig, what, probe string) {
		if first == "" && (c.Probe == "" || c.Probe == probe) {
			first, firstSig = what, sig
		}
	})
	if first != "" {
		return first, fmt.Errorf("%s", firstSig)
	}
	return "routing and dumps agree with the model in this state", nil
}

func runC13(r *report.Run) {
	thorough := r.Tier == "thorough"
	segs, nm := 4, 3
	if thorough {
		segs, nm = 5, 3
	}
	bases := []uint32{0x000000, 0x000010, 0x00FFE0, 0xFFFFC0, 0x7FFFF0 - 16}
	if thorough {
		bases = []uint32{0x000000, 0x000010, 0x00FFE0 - 16, 0xFFFFB0, 0x7FFFE0 - 16, 0x123450}
	}
	var states, transitions, evals, touches int64
	for _, base := range bases {
		win := c13Window(base, segs)
		good, bad := c13Transitions(win, base, segs, nm)
		seen := map[string][]c13Attach{}
		init := c13NewModel(win)
		seen[init.key()] = nil
		frontier := [][]c13Attach{nil}
		var mu sync.Mutex
		// check the initial state too
		{
			c := c13Case{Base: base, Segs: segs, Mems: nm}
			w, m, _ := c13Replay(c)
			evals += c13CheckState(w, m, func(sig, what, probe string) {
				cc := c
				cc.Probe = probe
				r.Violation(sig, what, cc)
			})
		}
		for len(frontier) > 0 {
			var next [][]c13Attach
			par.For(len(frontier), func(_, fi int) {
				path := frontier[fi]
				// misaligned attaches: all on one world, must be rejected and change nothing
				{
					c := c13Case{Base: base, Segs: segs, Mems: nm, Path: path}
					w, m, err := c13Replay(c)
					if err != nil {
						r.Violation("unexplained:attach-result", err.Error(), c)
						return
					}
					// empty and inverted ranges with aligned ends (end = start-1, end < start): they contain no
					// address, so whether Attach accepts them or not, no routing may change
					for i := 0; i <= segs; i++ {
						for _, back := range []uint32{1, 17, 33} {
							st := base + uint32(i)*16
							if st < back {
								continue
							}
							t := c13Attach{2, st, st - back}
							func() {
								defer func() { _ = recover() }()
								_ = w.b.Attach(w.mems[t.Mem-1], "m", t.Start, t.End)
							}()
							atomic.AddInt64(&transitions, 1)
							if obs := c13Observe(w, win); obs != m.key() {
								cc := c
								cc.Path = append(append([]c13Attach(nil), path...), t)
								r.Violation("unexplained:empty-range-attach-changed-routing", fmt.Sprintf("Attach($%06x,$%06x) names no address (end below start) but routing is now %s, was %s", t.Start, t.End, obs, m.key()), cc)
								return
							}
						}
					}
					for _, t := range bad {
						err := w.b.Attach(w.mems[t.Mem-1], "m", t.Start, t.End)
						atomic.AddInt64(&transitions, 1)
						cc := c
						cc.Path = append(append([]c13Attach(nil), path...), t)
						if err == nil {
							r.Violation("unexplained:misaligned-attach-accepted", fmt.Sprintf("Attach($%06x,$%06x) is not 16-byte aligned but was accepted", t.Start, t.End), cc)
						}
						if obs := c13Observe(w, win); obs != m.key() {
							r.Violation("unexplained:rejected-attach-changed-routing", fmt.Sprintf("after rejected Attach($%06x,$%06x) routing is %s, was %s", t.Start, t.End, obs, m.key()), cc)
							return
						}
					}
				}
				for _, t := range good {
					c := c13Case{Base: base, Segs: segs, Mems: nm, Path: append(append([]c13Attach(nil), path...), t)}
					w, m, err := c13Replay(c)
					atomic.AddInt64(&transitions, 1)
					if err != nil {
						r.Violation("unexplained:attach-result", err.Error(), c)
						continue
					}
					// the same transition on a live bus (a fresh 16 MiB bus per case, hence the economy): from the
					// initial state and the states one Attach away, every cell of the window is accessed just before
					// the Attach (last byte read, first byte written); from deeper states the last and the first cell
					// of the attached range, alternately
					type touch struct {
						a uint32
						w bool
					}
					var ts []touch
					if len(path) <= 1 {
						for a := win.lo; a <= win.hi && a >= win.lo; a += 16 {
							ts = append(ts, touch{a + 15, false}, touch{a, true})
						}
					} else if (len(path)+int(t.Start>>4))%2 == 0 {
						ts = []touch{{t.End, false}}
					} else {
						ts = []touch{{t.Start, true}}
					}
					for _, x := range ts {
						tc := c
						tc.Touch, tc.TouchAddr, tc.TouchWrite = true, x.a, x.w
						atomic.AddInt64(&touches, 1)
						if sig, what := c13TouchRun(tc); sig != "" {
							r.ViolationSized(sig, what, tc, len(tc.Path))
						}
					}
					obs := c13Observe(w, win)
					if obs != m.key() {
						r.Violation("unexplained:routing", fmt.Sprintf("after %+v routing (memory id per 16-byte segment from $%06x) is %s, model says %s", c.Path, win.lo, obs, m.key()), c)
						continue
					}
					mu.Lock()
					_, old := seen[m.key()]
					if !old {
						seen[m.key()] = c.Path
						next = append(next, c.Path)
					}
					mu.Unlock()
					if !old {
						n := c13CheckState(w, m, func(sig, what, probe string) {
							cc := c
							cc.Probe = probe
							r.Violation(sig, what, cc)
						})
						atomic.AddInt64(&evals, n)
					}
				}
			})
			sort.Slice(next, func(i, j int) bool { return fmt.Sprint(next[i]) < fmt.Sprint(next[j]) })
			frontier = next
		}
		states += int64(len(seen))
		r.Set(fmt.Sprintf("states_window_%06x", base), int64(len(seen)))
	}
	// large ranges
	bdepth := 2
	if thorough {
		bdepth = 3
	}
	big := c13BigCases(bdepth, 2)
	var nbig int64
	par.For(len(big), func(_, i int) {
		atomic.AddInt64(&nbig, int64(len(big[i].Big)))
		if sig, what := c13BigRun(big[i]); sig != "" {
			r.ViolationSized(sig, what, big[i], len(big[i].Big))
		}
	})
	states += int64(len(big))
	transitions += nbig
	// a bus that has been through very many Attach calls (more than 2^16): routing is still that of the last
	// Attach over each address
	transitions += 3
	if sig, what := c13ForkRun(); sig != "" {
		r.Violation(sig, what, c13ForkCase{true})
	}
	transitions += 70000
	if sig, what := c13ManyRun(70000); sig != "" {
		r.Violation(sig, what, c13ManyCase{ManyAttaches: 70000})
	}
	// the library's own RAM/ROM types behind the bus
	for _, base := range []uint32{0x000000, 0x000010, 0x7DFFA0, 0x7DFFC0, 0x7DFFE0, 0x7E0000, 0xFFFF80} { // incl. each object straddling a bank edge
		rc := c13RealCase{RealBase: base}
		states++
		transitions += 3
		if sig, what := c13RealRun(rc); sig != "" {
			r.Violation(sig, what, rc)
		}
	}
	// the second bus implementation (cpualt.Bus): routing clause only
	altSegs := 3
	if thorough {
		altSegs = 4
	}
	as, at, ae := runC13Alt(r, altSegs, []uint32{0x000000, 0x00FFE0, 0xFFFFD0 - uint32(altSegs-3)*16})
	odd := c13AltOddCases()
	par.For(len(odd), func(_, i int) {
		if sig, what := c13AltOddRun(odd[i]); sig != "" {
			r.Violation(sig, what, odd[i])
		}
	})
	at += int64(len(odd))
	r.Set("alt_bus_unaligned_ranges", len(odd))
	states, transitions, evals = states+as, transitions+at, evals+ae
	r.Set("cpualt_bus_states", as)
	r.Set("cpualt_bus_transitions", at)
	r.Set("large_range_sequences", int64(len(big)))
	r.Set("states", states)
	r.Set("transitions", transitions+touches)
	r.Set("attaches_on_a_live_bus", touches)
	r.Set("traces_validated_against_impl", transitions)
	r.Set("evaluations", evals)
	r.Set("distinct_nontrivial", states)
	r.Set("rule", "BFS to fixpoint over routing states (owner of each 16-byte window segment) for each window position; every transition is a real Attach on a fresh real Bus reached by replaying the shortest path; in every state every byte address of window+guards is read and written (the instrumented memories make a bus read of their own at another attached address while serving each access), EaRead24_wrap is called from every window address (and across the bank wrap in the large-range scenarios) and EaDump is called for every start<=end; evaluations counts those per-state calls. A bus copied by value must route on its own (Attach on either does not re-route the other). One bus is put through 70000 Attach calls and must still route to the last memory attached over each cell. The library's own memory.RAM and memory.ROM objects (which subtract their offset from the full address) are attached side by side and overlapping at seven bases (each object once across a bank edge) and every address is read, written and dumped against a plain owner map. The second bus implementation, cpualt.Bus, has no Attach result, alignment rule or EaDump and treats unattached cells as open bus, so only the routing clause applies to it: BFS to a fixpoint over (reader owner, writer owner) per window cell through real AttachReader/AttachWriter calls, every address probed through Read8/16/24, Write8/16/24, EaRead, EaWrite with logging closures (each byte must reach the most recently attached closure of its own cell with the full address)")
	r.Set("bounds", map[string]interface{}{"window_segments": segs, "memories": nm, "window_bases": bases, "fixpoint": true})
	r.Set("exhaustive", true)
	r.Sample(c13Case{Base: 0x10, Segs: segs, Mems: nm, Path: []c13Attach{{1, 0x10, 0x4F}, {2, 0x20, 0x2F}}, Probe: "dump 000018 00002f"})
	r.Sample(c13Case{Base: 0xFFFFC0, Segs: segs, Mems: nm, Path: []c13Attach{{3, 0xFFFFF0, 0xFFFFFF}}})
	r.Assume("the bus treats all 2^20 segments alike apart from index arithmetic; window positions cover address 0, a bank edge, mid-space and the top of the 24-bit space")
}
