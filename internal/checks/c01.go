package checks

import (
	"encoding/json"
	"fmt"
	"strings"
	"sync/atomic"

	"verif/internal/cpuh"
	"verif/internal/ref65816"
	"verif/internal/report"
)

func init() {
	Registry["C01"] = Check{GC: 25, Level: "model_checking", Run: runC01, Replay: replayC01}
}

var modeName = map[ref65816.Mode]string{ref65816.Imp: "imp", ref65816.Acc: "acc", ref65816.ImM: "immM", ref65816.ImX: "immX", ref65816.Im8: "imm8", ref65816.Im16: "imm16",
	ref65816.Dp: "dp", ref65816.Dpx: "dp,X", ref65816.Dpy: "dp,Y", ref65816.Idp: "(dp)", ref65816.Idx: "(dp,X)", ref65816.Idy: "(dp),Y", ref65816.Ildp: "[dp]", ref65816.Ildy: "[dp],Y",
	ref65816.Sr: "sr,S", ref65816.Isy: "(sr,S),Y", ref65816.Abs: "abs", ref65816.Abx: "abs,X", ref65816.Aby: "abs,Y", ref65816.Lng: "long", ref65816.Lnx: "long,X",
	ref65816.Iab: "(abs)", ref65816.Iax: "(abs,X)", ref65816.Ial: "[abs]", ref65816.Rel: "rel8", ref65816.Rll: "rel16", ref65816.Blk: "blk"}

type c01Finding struct {
	sig, what string
}

// c01Check runs one case on the reference and both interpreters (through alpha).
func firstReadOrderDiff(want, got []uint32) string {
	first := func(r []uint32) []uint32 {
		var out []uint32
		seen := map[uint32]bool{}
		for _, a := range r {
			if !seen[a] {
				seen[a] = true
				out = append(out, a)
			}
		}
		return out
	}
	w, g := first(want), first(got)
	if len(w) != len(g) {
		return fmt.Sprintf("model reads %06x, interpreter %06x", want, got)
	}
	for i := range w {
		if w[i] != g[i] {
			return fmt.Sprintf("model reads %06x, interpreter %06x", want, got)
		}
	}
	return ""
}

func c01Check(x *cpuCtx, c *cpuCase) (out []c01Finding, nontrivial bool) {
	x.buildImage(c)
	rr := x.runRef(c, 0)
	wantW := append([]cpuh.Cell(nil), x.ref.Writes...)
	e := ref65816.Table[c.Op]
	chg := rr.want
	chg.PC = c.S.PC
	nontrivial = len(wantW) > 0 || chg != c.S
	for i := 0; i < 2; i++ {
		ir := x.runImpl(i, c)
		mem := x.ms[i].Mem()
		var d []string
		if ir.panic != nil {
			d = []string{"PANIC"}
		} else {
			d = archDiff(e.Mn, alpha(ir.raw), rr.want, rr.care, mem.Writes, wantW)
			if mem.Bad {
				d = append(d, "ADDR>=2^24")
			}
		}
		if len(d) == 0 {
			// the bus reads, in the order in which each address is read for the first time, are those of the
			// programming model (opcode, operand bytes low to high, pointers low to high, data low byte before
			// high byte): a location may be a hardware register that notices. Repeated reads of an address
			// already read are tolerated (both interpreters read the pointer of (abs,X) jumps twice).
			if rd := firstReadOrderDiff(x.ref.Reads, mem.Reads); rd != "" && ir.panic == nil && !rr.care.Loose {
				out = append(out, c01Finding{"unexplained:read-order:" + x.ms[i].Name() + ":" + e.Mn + ":" + modeName[e.Mode],
					fmt.Sprintf("%s %s %s: registers and memory are right, but the bus is read in another order than the programming model prescribes: %s | case %s", x.ms[i].Name(), e.Mn, modeName[e.Mode], rd, c.String())})
			}
			continue
		}
		name := x.ms[i].Name()
		sig := fmt.Sprintf("unexplained:%s:%s:%s", name, e.Mn, modeName[e.Mode])
		// quirk classification: does a named deviation reproduce the observation exactly?
		if ir.panic == nil && c.S.P&ref65816.FD != 0 && (e.Mn == "ADC" || e.Mn == "SBC") {
			gotW := append([]cpuh.Cell(nil), mem.Writes...)
			q := x.runRef(c, ref65816.QDecimalLegacy)
			if len(archDiff(e.Mn, alpha(ir.raw), q.want, q.care, gotW, x.ref.Writes)) == 0 {
				sig = "decimal-adc-sbc-legacy-adjust:" + name
			}
		}
		what := fmt.Sprintf("%s %s %s: differs in %s | case %s | want %+v | got %+v", name, e.Mn, modeName[e.Mode], strings.Join(d, ","), c.String(), rr.want, alpha(ir.raw))
		if ir.panic != nil {
			what += fmt.Sprintf(" | panic: %v", ir.panic)
		}
		out = append(out, c01Finding{sig, what})
	}
	return
}

func c01AgedCheck(x *cpuCtx, c *cpuCase) (string, string) {
	fs, _ := c01Check(x, c)
	for _, f := range fs {
		if strings.HasPrefix(f.sig, "unexplained:") {
			return f.sig, f.what
		}
	}
	return "", ""
}

func replayC01(raw json.RawMessage) (string, error) {
	if ok, what, err := cpuAgedReplay(raw, c01AgedCheck); ok {
		return what, err
	}
	var pp progPath
	if json.Unmarshal(raw, &pp) == nil && len(pp.Syms) > 0 {
		return progReplay(pp, progSeeds(false), progAlphabet(true), true, c01ProgOracle)
	}
	var c cpuCase
	if err := json.Unmarshal(raw, &c); err != nil {
		return "", err
	}
	x := newCPUCtx()
	fs, _ := c01Check(x, &c)
	if len(fs) == 0 {
		return "both interpreters agree with the reference model on this case", nil
	}
	return fs[0].what, fmt.Errorf("%s", fs[0].sig)
}

func runC01(r *report.Run) {
	o := cpuSweepOpts{thorough: r.Tier == "thorough", seed: r.Seed}
	var nontriv, total int64
	agedSteps := cpuAgedAll(r, o.thorough, false, c01AgedCheck)
	counts := cpuEnumerate(o, nil, func(x *cpuCtx, c *cpuCase) {
		fs, nt := c01Check(x, c)
		if nt {
			atomic.AddInt64(&nontriv, 1)
		}
		atomic.AddInt64(&total, 1)
		for _, f := range fs {
			r.Violation(f.sig, f.what, *c)
		}
	})
	st, tr := c01Programs(r, o)
	r.Set("single_step_cases_by_sweep", counts)
	r.Set("single_step_cases", total)
	r.Set("states", total+st)
	r.Set("transitions", 2*total+tr)
	r.Set("traces_validated_against_impl", 2*total+tr)
	r.Set("evaluations", 2*total+tr+agedSteps)
	r.Set("distinct_nontrivial", nontriv)
	for i, cs := range cpuSampled {
		if i%8 == 0 {
			r.Sample(cs)
		}
	}
	r.Set("rule", "every case of the five sweeps (fetch, addressing, operation, flags, frame) for all 256 opcodes is one Step of each interpreter from an enumerated raw state, compared through the abstraction function with the reference WDC model (registers, flags, PC, write set); plus the program search (sequences); non-trivial = the reference step writes memory or changes a register/flag other than PC")
	al := cpuAlphabets(o.thorough, o.seed)
	r.Set("alphabets", map[string]interface{}{"locations": len(al.locs), "operand_bytes": al.bytes, "accumulator/data": al.acc, "index": al.idx, "S": al.sp, "D": al.dreg, "DBR": al.dbr, "pointer_low": al.ptrLo, "pointer_bank": al.ptrBk, "base_images": len(al.seeds), "stale_copies": 3})
	c := cpuDefaultCase(0x71)
	r.Sample(c.String())
	c = cpuDefaultCase(0x54)
	c.S.P = 0x20
	r.Sample(c.String())
	r.Assume("reference model internal/ref65816 (WDC datasheet, Eyes & Lichty; don't-care mask for V in decimal mode, invalid BCD, WAI/STP internals)")
	r.Assume("exhaustive within the stated union of products, not over all 2^100 states")
}
