package checks

import (
	"fmt"
	"sort"
	"strings"

	"verif/internal/cpuh"
	"verif/internal/ref65816"
)

// Generators of plain Go unit tests for recorded violations: the emitted source uses only
// alttpo/snes API and the standard library, so a counterexample can be run without the explorer
// (copy the .go.txt file into any package directory of a module that requires alttpo/snes).

const goTestMemSrc = `
// sparse 16 MiB memory: a fixed hash of the address overridden by the planted cells
type sparse struct {
	seed  uint32
	cells map[uint32]byte
}

func (m *sparse) Read(a uint32) byte {
	if v, ok := m.cells[a]; ok {
		return v
	}
	x := (a ^ m.seed) * 2654435761
	return byte(x>>11) ^ byte(x>>19) ^ byte(x>>27)
}
func (m *sparse) Write(a uint32, v byte) { m.cells[a] = v }
func (m *sparse) Shutdown()             {}
func (m *sparse) Size() uint32          { return 0 }
func (m *sparse) Clear()                {}
func (m *sparse) Dump(uint32) []byte    { return nil }
`

func goCells(ov []cpuh.Cell) string {
	m := map[uint32]byte{}
	for _, c := range ov {
		m[c.A] = c.V
	}
	var ks []uint32
	for k := range m {
		ks = append(ks, k)
	}
	sort.Slice(ks, func(i, j int) bool { return ks[i] < ks[j] })
	var b strings.Builder
	for _, k := range ks {
		fmt.Fprintf(&b, "0x%06x: 0x%02x, ", k, m[k])
	}
	return b.String()
}

func goRawAssign(v string, r cpuh.Raw) string {
	p := r.P
	l1 := fmt.Sprintf("\t%[1]s.PC, %[1]s.SP, %[1]s.RA, %[1]s.RX, %[1]s.RY, %[1]s.RD = ", v) + fmt.Sprintf("0x%04x, 0x%04x, 0x%04x, 0x%04x, 0x%04x, 0x%04x\n", r.PC, r.SP, r.RA, r.RX, r.RY, r.RD)
	l2 := fmt.Sprintf("\t%[1]s.RAh, %[1]s.RAl, %[1]s.RXl, %[1]s.RYl, %[1]s.RDBR, %[1]s.RK = ", v) + fmt.Sprintf("0x%02x, 0x%02x, 0x%02x, 0x%02x, 0x%02x, 0x%02x\n", r.RAh, r.RAl, r.RXl, r.RYl, r.RDBR, r.RK)
	l3 := fmt.Sprintf("\t%[1]s.C, %[1]s.Z, %[1]s.I, %[1]s.D, %[1]s.X, %[1]s.M, %[1]s.V, %[1]s.N, %[1]s.E = ", v) + fmt.Sprintf("%d, %d, %d, %d, %d, %d, %d, %d, %d\n", p&1, p>>1&1, p>>2&1, p>>3&1, p>>4&1, p>>5&1, p>>6&1, p>>7&1, r.E)
	return l1 + l2 + l3
}

const goArchSrc = `
// architectural view of an interpreter: the authoritative register copies
func arch(m, x byte, ra uint16, rah, ral byte, rx uint16, rxl byte, ry uint16, ryl byte) (c, xx, yy uint16) {
	c, xx, yy = ra, rx, ry
	if m == 1 {
		c = uint16(rah)<<8 | uint16(ral)
	}
	if x == 1 {
		xx, yy = uint16(rxl), uint16(ryl)
	}
	return
}
`

// cpuCaseGoTest renders a single-step case: both interpreters are stepped once from the raw state;
// with want != nil the architectural result is compared with the reference model's.
func cpuCaseGoTest(c cpuCase, sig, what string) string {
	x := newCPUCtx()
	x.buildImage(&c)
	rr := x.runRef(&c, 0)
	raw := mkRaw(c.S, c.Stale, c.Int)
	var b strings.Builder
	fmt.Fprintf(&b, "// Replay of a recorded violation (%s)\n// %s\npackage replay\n\nimport (\n\t\"testing\"\n\n\t\"github.com/alttpo/snes/emulator/bus\"\n\t\"github.com/alttpo/snes/emulator/cpu65c816\"\n\t\"github.com/alttpo/snes/emulator/cpualt\"\n)\n", sig, strings.ReplaceAll(what, "\n", " "))
	b.WriteString(goTestMemSrc)
	b.WriteString(goArchSrc)
	fmt.Fprintf(&b, "\nfunc image() *sparse {\n\treturn &sparse{seed: 0x%08x, cells: map[uint32]byte{%s}}\n}\n", c.Seed, goCells(x.img.Ov))
	w := rr.want
	mask := ^rr.care.IgnoreP
	fmt.Fprintf(&b, `
// expected by the WDC 65C816 model after one instruction (flags compared under mask %#02x)
const wantPC, wantK, wantC, wantX, wantY, wantS, wantD, wantDBR, wantP = 0x%04x, 0x%02x, 0x%04x, 0x%04x, 0x%04x, 0x%04x, 0x%04x, 0x%02x, 0x%02x

func check(t *testing.T, name string, pc uint16, k byte, c, x, y, s, d uint16, dbr, p byte) {
	if pc != wantPC || k != wantK || c != wantC || x != wantX || y != wantY || s != wantS || d != wantD || dbr != wantDBR || (p^wantP)&%#02x != 0 {
		t.Errorf("%%s: PC=%%02x:%%04x C=%%04x X=%%04x Y=%%04x S=%%04x D=%%04x DBR=%%02x P=%%02x, want PC=%%02x:%%04x C=%%04x X=%%04x Y=%%04x S=%%04x D=%%04x DBR=%%02x P=%%02x",
			name, k, pc, c, x, y, s, d, dbr, p, wantK, wantPC, wantC, wantX, wantY, wantS, wantD, wantDBR, wantP)
	}
}
`, mask, w.PC, w.K, w.C, w.X, w.Y, w.S, w.D, w.DBR, w.P, mask)
	b.WriteString("\nfunc TestReplayPrimary(t *testing.T) {\n\tb, _ := bus.New()\n\tif err := b.Attach(image(), \"all\", 0, 0xFFFFFF); err != nil {\n\t\tt.Fatal(err)\n\t}\n\tc, _ := cpu65c816.New(b)\n")
	b.WriteString(goRawAssign("c", raw))
	fmt.Fprintf(&b, "\tc.Interrupt = %d\n\tc.Step() // a panic here is itself the violation\n\ta, x, y := arch(c.M, c.X, c.RA, c.RAh, c.RAl, c.RX, c.RXl, c.RY, c.RYl)\n\tcheck(t, \"cpu65c816\", c.PC, c.RK, a, x, y, c.SP, c.RD, c.RDBR, c.Flags())\n}\n", c.Int)
	b.WriteString("\nfunc TestReplayAlt(t *testing.T) {\n\tm := image()\n\tc := &cpualt.CPU{}\n\tc.Init()\n\tc.Bus.AttachReader(0, 0xFFFFFF, m.Read)\n\tc.Bus.AttachWriter(0, 0xFFFFFF, m.Write)\n")
	b.WriteString(goRawAssign("c", raw))
	fmt.Fprintf(&b, "\tc.Interrupt = %d\n\tc.Step()\n\ta, x, y := arch(c.M, c.X, c.RA, c.RAh, c.RAl, c.RX, c.RXl, c.RY, c.RYl)\n\tcheck(t, \"cpualt\", c.PC, c.RK, a, x, y, c.SP, c.RD, c.RDBR, c.Flags())\n}\n", c.Int)
	if c.S.E {
		b.WriteString("\n// note: the start state is in emulation mode; the expected values above come from the native-mode\n// model and are only indicative — compare the two interpreters with each other instead.\n")
	}
	_ = ref65816.FC
	return b.String()
}

// progPathGoTest renders an instruction sequence: each instruction is placed at the current K:PC
// and stepped, on both interpreters; the final architectural states are printed and compared with
// each other (and with the model's expectation when native).
func progPathGoTest(p progPath, seeds []progSeed, syms []progSym, sig, what string) string {
	if p.Seed < 0 || p.Seed >= len(seeds) {
		return ""
	}
	sd := seeds[p.Seed]
	cc := cpuCase{S: sd.s}
	cc.normalise()
	raw := mkRaw(cc.S, sd.stale, 0)
	// expected final state from the reference model (native mode only)
	e := &progEnv{x: newCPUCtx(), syms: syms, useRef: true}
	e.reset(p.Seed, sd, p.MemSeed)
	var code [][]byte
	for _, name := range p.Syms {
		for k := range syms {
			if syms[k].name == name {
				res := e.exec(k)
				code = append(code, append([]byte(nil), res.bytes...))
			}
		}
	}
	w := e.ref
	var b strings.Builder
	fmt.Fprintf(&b, "// Replay of a recorded violation (%s)\n// %s\n// instructions: %v\npackage replay\n\nimport (\n\t\"testing\"\n\n\t\"github.com/alttpo/snes/emulator/bus\"\n\t\"github.com/alttpo/snes/emulator/cpu65c816\"\n\t\"github.com/alttpo/snes/emulator/cpualt\"\n)\n", sig, strings.ReplaceAll(what, "\n", " "), p.Syms)
	b.WriteString(goTestMemSrc)
	b.WriteString(goArchSrc)
	b.WriteString("\n// the program: instruction i is placed at the K:PC reached after instruction i-1\nvar program = [][]byte{")
	for _, c := range code {
		b.WriteString("{")
		for _, x := range c {
			fmt.Fprintf(&b, "0x%02x, ", x)
		}
		b.WriteString("}, ")
	}
	b.WriteString("}\n")
	fmt.Fprintf(&b, "\nconst wantPC, wantK, wantC, wantX, wantY, wantS, wantD, wantDBR, wantP = 0x%04x, 0x%02x, 0x%04x, 0x%04x, 0x%04x, 0x%04x, 0x%04x, 0x%02x, 0x%02x // WDC model (native mode)\n", w.PC, w.K, w.C, w.X, w.Y, w.S, w.D, w.DBR, w.P)
	fmt.Fprintf(&b, `
func TestReplay(t *testing.T) {
	pm := &sparse{seed: 0x%08x, cells: map[uint32]byte{}}
	b, _ := bus.New()
	if err := b.Attach(pm, "all", 0, 0xFFFFFF); err != nil {
		t.Fatal(err)
	}
	p, _ := cpu65c816.New(b)
%s
	am := &sparse{seed: 0x%08x, cells: map[uint32]byte{}}
	a := &cpualt.CPU{}
	a.Init()
	a.Bus.AttachReader(0, 0xFFFFFF, am.Read)
	a.Bus.AttachWriter(0, 0xFFFFFF, am.Write)
%s
	for _, ins := range program {
		for i, v := range ins {
			pm.cells[uint32(p.RK)<<16|uint32(p.PC+uint16(i))] = v
			am.cells[uint32(a.RK)<<16|uint32(a.PC+uint16(i))] = v
		}
		p.Step()
		a.Step()
	}
	pc, px, py := arch(p.M, p.X, p.RA, p.RAh, p.RAl, p.RX, p.RXl, p.RY, p.RYl)
	ac, ax, ay := arch(a.M, a.X, a.RA, a.RAh, a.RAl, a.RX, a.RXl, a.RY, a.RYl)
	t.Logf("cpu65c816: PC=%%02x:%%04x C=%%04x X=%%04x Y=%%04x S=%%04x D=%%04x DBR=%%02x P=%%02x", p.RK, p.PC, pc, px, py, p.SP, p.RD, p.RDBR, p.Flags())
	t.Logf("cpualt:    PC=%%02x:%%04x C=%%04x X=%%04x Y=%%04x S=%%04x D=%%04x DBR=%%02x P=%%02x", a.RK, a.PC, ac, ax, ay, a.SP, a.RD, a.RDBR, a.Flags())
	t.Logf("model:     PC=%%02x:%%04x C=%%04x X=%%04x Y=%%04x S=%%04x D=%%04x DBR=%%02x P=%%02x", wantK, wantPC, wantC, wantX, wantY, wantS, wantD, wantDBR, wantP)
	if p.PC != a.PC || p.RK != a.RK || pc != ac || px != ax || py != ay || p.SP != a.SP || p.RD != a.RD || p.RDBR != a.RDBR || p.Flags() != a.Flags() || p.AllCycles != a.AllCycles {
		t.Errorf("the two interpreters disagree")
	}
	if p.PC != wantPC || p.RK != wantK || pc != wantC || px != wantX || py != wantY || p.SP != wantS || p.RD != wantD || p.RDBR != wantDBR {
		t.Errorf("cpu65c816 deviates from the model")
	}
	if a.PC != wantPC || a.RK != wantK || ac != wantC || ax != wantX || ay != wantY || a.SP != wantS || a.RD != wantD || a.RDBR != wantDBR {
		t.Errorf("cpualt deviates from the model")
	}
}
`, p.MemSeed, goRawAssign("p", raw), p.MemSeed, goRawAssign("a", raw))
	return b.String()
}

// asmHistoryGoTest renders an emitter call history.
func asmHistoryGoTest(h asmHistory, sig, what string) string {
	ops, err := opsByName(h.Ops)
	if err != nil {
		return ""
	}
	var b strings.Builder
	fmt.Fprintf(&b, "// Replay of a recorded violation (%s)\n// %s\npackage replay\n\nimport (\n\t\"bytes\"\n\t\"testing\"\n\n\t\"github.com/alttpo/snes/asm\"\n)\n", sig, strings.ReplaceAll(what, "\n", " "))
	b.WriteString("\nfunc data(n int) []byte {\n\tb := make([]byte, n)\n\tfor i := range b {\n\t\tb[i] = byte(0xA0 + i*7)\n\t}\n\treturn b\n}\n\n// call runs one emitter call and reports whether it panicked (was refused)\nfunc call(f func()) (refused bool) {\n\tdefer func() { refused = recover() != nil }()\n\tf()\n\treturn\n}\n")
	m := newModelFor(h.Variant, h.Capacity)
	fmt.Fprintf(&b, "\nfunc TestReplay(t *testing.T) {\n")
	if h.Capacity >= 0 && h.Window {
		fmt.Fprintf(&b, "\tbacking := bytes.Repeat([]byte{0xC5}, %d)\n\te := asm.NewEmitter(backing[8:%d], %v) // a window of a larger array: len < cap\n", h.Capacity+24, 8+h.Capacity, h.Variant.Listing)
	} else if h.Capacity >= 0 {
		fmt.Fprintf(&b, "\te := asm.NewEmitter(make([]byte, %d), %v)\n", h.Capacity, h.Variant.Listing)
	} else {
		fmt.Fprintf(&b, "\te := asm.NewEmitter(nil, %v)\n", h.Variant.Listing)
	}
	if h.Variant.BaseSet {
		fmt.Fprintf(&b, "\te.SetBase(0x%06x)\n", h.Variant.Base)
	}
	for i, op := range ops {
		refused := op.model(m)
		fmt.Fprintf(&b, "\tif refused := call(func() { %s }); refused != %v {\n\t\tt.Errorf(\"call #%d %s: refused=%%v, want %v\", refused)\n\t}\n", asmOpSource(op.name), refused, i, op.name, refused)
		fmt.Fprintf(&b, "\tif e.PC() != 0x%06x || byte(e.Flags()) != 0x%02x", m.pc, m.p)
		if h.Capacity >= 0 {
			fmt.Fprintf(&b, " || e.Len() != %d", len(m.bytes))
		}
		fmt.Fprintf(&b, " {\n\t\tt.Errorf(\"after call #%d %s: PC=%%06x Flags=%%02x Len=%%d, want PC=%06x Flags=%02x Len=%d\", e.PC(), byte(e.Flags()), e.Len())\n\t}\n", i, op.name, m.pc, m.p, len(m.bytes))
	}
	if h.Capacity >= 0 {
		f := m.finalize()
		fmt.Fprintf(&b, "\twant := %s\n\tif !bytes.Equal(e.Bytes(), want) {\n\t\tt.Errorf(\"Bytes() = %% x, want %% x\", e.Bytes(), want)\n\t}\n", goBytes(m.bytes))
		fmt.Fprintf(&b, "\terr := e.Finalize()\n\tif (err == nil) != %v {\n\t\tt.Errorf(\"Finalize() = %%v, want success=%v\", err)\n\t}\n", f.ok, f.ok)
		if f.ok {
			fmt.Fprintf(&b, "\tfin := %s\n\tif !bytes.Equal(e.Bytes(), fin) {\n\t\tt.Errorf(\"finalized Bytes() = %% x, want %% x\", e.Bytes(), fin)\n\t}\n", goBytes(f.patched))
		}
		fmt.Fprintf(&b, "\tif err2 := e.Finalize(); (err2 == nil) != %v {\n\t\tt.Errorf(\"second Finalize() = %%v, want success=%v\", err2)\n\t}\n", f.ok, f.ok)
	}
	if h.Capacity >= 0 && h.Window {
		fmt.Fprintf(&b, "\tfor i, x := range backing {\n\t\tif (i < 8 || i >= %d) && x != 0xC5 {\n\t\t\tt.Errorf(\"byte %%+d relative to the target buffer was overwritten with %%02x\", i-8, x)\n\t\t}\n\t}\n", 8+h.Capacity)
	}
	b.WriteString("}\n")
	return b.String()
}

func goBytes(b []byte) string {
	var s strings.Builder
	s.WriteString("[]byte{")
	for _, x := range b {
		fmt.Fprintf(&s, "0x%02x, ", x)
	}
	s.WriteString("}")
	return s.String()
}

func asmOpSource(name string) string {
	switch {
	case name == "NOP":
		return "e.NOP()"
	case name == "LDA_dp($12)":
		return "e.LDA_dp(0x12)"
	case name == "LDA_abs($1234)":
		return "e.LDA_abs(0x1234)"
	case name == "JSL($123456)":
		return "e.JSL(0x123456)"
	case name == "SEP(#$20)":
		return "e.SEP(0x20)"
	case name == "REP(#$20)":
		return "e.REP(0x20)"
	case name == "LDA_imm8_b($7F)":
		return "e.LDA_imm8_b(0x7F)"
	case name == "LDA_imm16_w($1234)":
		return "e.LDA_imm16_w(0x1234)"
	case strings.HasPrefix(name, "EmitBytes("):
		return "e.EmitBytes(data(" + name[len("EmitBytes("):len(name)-1] + "))"
	case strings.HasPrefix(name, "Comment("):
		var n int
		fmt.Sscanf(name, "Comment(%d chars)", &n)
		c := ""
		switch n {
		case 5:
			c = "short"
		case 200:
			c = longComment
		}
		return fmt.Sprintf("e.Comment(%q)", c)
	case strings.HasSuffix(name, "(a)") || strings.HasSuffix(name, "(b)"):
		return fmt.Sprintf("e.%s(%q)", name[:len(name)-3], asmLabelName(name[len(name)-2:len(name)-1]))
	}
	return "/* " + name + " */"
}

// GoTestFor returns the unit-test renderer for a check's replay cases (nil if none).
func GoTestFor(id string) func(c interface{}, sig, what string) string {
	return func(c interface{}, sig, what string) string {
		switch v := c.(type) {
		case cpuCase:
			return cpuCaseGoTest(v, sig, what)
		case progPath:
			if id != "C01" {
				for _, n := range v.Syms {
					if strings.Contains(n, "pending") || strings.Contains(n, "TriggerIRQ") {
						return "" // interrupt symbols: replay with ./run replay
					}
				}
				return progPathGoTest(v, progSeeds(true), progAlphabetInt(), sig, what)
			}
			return progPathGoTest(v, progSeeds(false), progAlphabet(true), sig, what)
		case asmHistory:
			if id == "C16" {
				return "" // the Clone/Append scenario is replayed with ./run replay
			}
			return asmHistoryGoTest(v, sig, what)
		}
		return ""
	}
}
