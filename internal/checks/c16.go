package checks

import (
	"bytes"
	"encoding/json"
	"fmt"

	"github.com/alttpo/snes/asm"

	"verif/internal/report"
)

func init() {
	Registry["C16"] = Check{Level: "model_checking", Run: runC16, Replay: replayC16}
}

type asmFullObs struct {
	asmObs
	text, hex string
	lerr      string
}

func observeFull(e *asm.Emitter, listing bool) asmFullObs {
	o := asmFullObs{asmObs: observe(e, asmLabelNames)}
	if listing {
		t, err, pn := listingOf(func(w *bytes.Buffer) error { return e.WriteTextTo(w) })
		h, err2, pn2 := listingOf(func(w *bytes.Buffer) error { return e.WriteHexTo(w) })
		o.text, o.hex = t, h
		if err != nil || pn != nil || err2 != nil || pn2 != nil {
			o.lerr = fmt.Sprintf("text err=%v panic=%v hex err=%v panic=%v", err, pn, err2, pn2)
		}
	}
	return o
}

func (o asmFullObs) diff(p asmFullObs) string {
	if !o.asmObs.equal(p.asmObs) {
		return fmt.Sprintf("state %v vs %v", o.asmObs, p.asmObs)
	}
	if (o.lerr == "") != (p.lerr == "") { // both listings failing is "the same"; the panic text may mention buffer sizes
		return fmt.Sprintf("listing errors %q vs %q", o.lerr, p.lerr)
	}
	if o.lerr != "" {
		return "" // both fail to list: nothing further to compare
	}
	if o.text != p.text {
		return fmt.Sprintf("text listings differ:\n%s\n--- vs ---\n%s", o.text, p.text)
	}
	if o.hex != p.hex {
		return fmt.Sprintf("hex listings differ:\n%s\n--- vs ---\n%s", o.hex, p.hex)
	}
	return ""
}

// c16Run: emit ops[:split] into A, Clone, ops[split:] into the clone, Append; compare with direct D.
// slack is added to the exact remaining capacity of A's buffer (-1: Append must be refused).
func c16Run(v asmVariant, ops []asmOp, split int, slack int, decoy bool) string {
	return c16RunResume(v, ops, split, len(ops), 0, slack, decoy)
}

// c16RunResume: ops[:split] into A, ops[split:resume] into a clone, Append, then the rest ops[resume:]
// again into A -- directly (mode 0) or through a second Clone/Append (mode 1): an emitter that went
// through Clone/Append must also BEHAVE like the direct one afterwards.
func c16RunResume(v asmVariant, ops []asmOp, split, resume, mode int, slack int, decoy bool) string {
	return c16RunFull(v, ops, split, resume, mode, slack, decoy, false)
}

// c16RunFull: dry=true runs the whole scenario with emitters that have no target buffer (NewEmitter(nil),
// Clone(nil)): program counter, tracked flags and label addresses must still be those of direct emission.
func c16RunFull(v asmVariant, ops []asmOp, split, resume, mode int, slack int, decoy, dry bool) string {
	return c16RunShape(v, ops, split, resume, mode, slack, decoy, dry, false)
}

// c16RunShape: inPlace=true gives every clone the free tail of its parent's own buffer as target
// (p.Clone(buf[p.Len():])), so that Append copies the bytes onto themselves.
func c16RunShape(v asmVariant, ops []asmOp, split, resume, mode int, slack int, decoy, dry, inPlace bool) string {
	roomy := 512
	if len(ops) > 8 {
		roomy = 16384 // the long programs
	}
	mk := func(capacity int) *asm.Emitter {
		if dry {
			return newRealEmitter(v, -1)
		}
		return newRealEmitter(v, capacity)
	}
	var scratch [][]byte
	cl := func(p *asm.Emitter) *asm.Emitter {
		if dry {
			return p.Clone(nil)
		}
		if inPlace {
			t := p.Bytes()
			return p.Clone(t[len(t):cap(t)])
		}
		b := make([]byte, roomy)
		scratch = append(scratch, b)
		return p.Clone(b)
	}
	// a clone's own buffer is the caller's scratch memory: once the clone has been Appended it is cleared
	// (reused for the next clone); the parent must not have kept anything that lives in it
	scribble := func() {
		for _, b := range scratch {
			for i := range b {
				b[i] = 0xDB
			}
		}
	}
	if (dry || inPlace) && (slack != 99 || decoy) {
		return ""
	}
	d := mk(roomy)
	outcome := make([]bool, len(ops))
	pcAfter := make([]uint32, len(ops))
	lenAfter := make([]int, len(ops)+1)
	for i, op := range ops {
		outcome[i] = applyReal(d, op) != nil
		pcAfter[i] = d.PC()
		lenAfter[i+1] = d.Len()
	}
	headLen, tailLen := lenAfter[split], lenAfter[resume]-lenAfter[split]
	if resume < len(ops) && (slack != 99 || decoy) {
		return ""
	}
	capA := roomy
	if slack != 99 {
		capA = headLen + tailLen + slack
		if capA < headLen {
			return ""
		}
	}
	a := mk(capA)
	if slack != 99 && !dry && !inPlace && (split+len(ops))%2 == 1 {
		// every other capacity-edge case: the parent's buffer is a window of a larger array (len < cap), so
		// that "remaining capacity" can only mean what is left of the slice that was handed in
		a, _ = newRealEmitterWindow(v, capA)
	}
	for i, op := range ops[:split] {
		if (applyReal(a, op) != nil) != outcome[i] {
			if slack != 99 {
				return "" // A's buffer is cut to size for the Append edge: whether a CALL fits exactly is C19's question
			}
			return fmt.Sprintf("head call #%d %s: refused=%v in A, %v in the direct emitter", i, op.name, !outcome[i], outcome[i])
		}
	}
	snap := observeFull(a, v.Listing)
	var c *asm.Emitter
	var pn interface{}
	func() {
		defer func() { pn = recover() }()
		c = cl(a)
	}()
	if pn != nil {
		return fmt.Sprintf("Clone panicked: %v", pn)
	}
	for i, op := range ops[split:resume] {
		if (applyReal(c, op) != nil) != outcome[split+i] {
			return fmt.Sprintf("tail call #%d %s: refused=%v in the clone, %v in the direct emitter", split+i, op.name, !outcome[split+i], outcome[split+i])
		}
		if c.PC() != pcAfter[split+i] {
			return fmt.Sprintf("after tail call #%d %s the clone's PC is $%06x, the direct emitter's is $%06x", split+i, op.name, c.PC(), pcAfter[split+i])
		}
	}
	nested := mode == 2 && resume < len(ops)
	if nested {
		// the rest goes into a clone OF THE CLONE, which is appended to the clone before the clone is appended
		c2 := cl(c)
		for i, op := range ops[resume:] {
			if (applyReal(c2, op) != nil) != outcome[resume+i] {
				return fmt.Sprintf("call #%d %s in a clone of the clone: refused=%v, %v in the direct emitter", resume+i, op.name, !outcome[resume+i], outcome[resume+i])
			}
			if c2.PC() != pcAfter[resume+i] {
				return fmt.Sprintf("after call #%d %s in a clone of the clone PC is $%06x, the direct emitter's is $%06x", resume+i, op.name, c2.PC(), pcAfter[resume+i])
			}
		}
		func() {
			defer func() { pn = recover() }()
			c.Append(c2)
		}()
		if pn != nil {
			return fmt.Sprintf("Append of the inner clone panicked: %v", pn)
		}
	}
	if decoy {
		// a second clone of the same original receives other references and labels and is thrown away:
		// whatever is done to it must not leak into the original or into the first clone
		c2 := a.Clone(make([]byte, roomy))
		for _, op := range c16DecoyOps() {
			applyReal(c2, op)
		}
		// the original, finalized WITHOUT Append, must behave like an emitter that only ever got the head
		// (differential: a second real emitter that is never cloned)
		a2 := newRealEmitter(v, roomy)
		h := newRealEmitter(v, roomy)
		for _, op := range ops[:split] {
			applyReal(a2, op)
			applyReal(h, op)
		}
		c3 := a2.Clone(make([]byte, roomy))
		for _, op := range ops[split:resume] {
			applyReal(c3, op)
		}
		for _, op := range c16DecoyOps() {
			applyReal(c3, op)
		}
		herr, want := a2.Finalize(), h.Finalize()
		if (herr == nil) != (want == nil) {
			return fmt.Sprintf("the original finalized without Append returns %v, an emitter that only ever got the head returns %v: the clone leaked into it", herr, want)
		}
		if herr == nil && !bytes.Equal(a2.Bytes(), h.Bytes()) {
			return fmt.Sprintf("the original finalized without Append holds % x, a head-only emitter % x", a2.Bytes(), h.Bytes())
		}
	}
	if df := observeFull(a, v.Listing).diff(snap); df != "" {
		return "the original changed before Append: " + df
	}
	func() {
		defer func() { pn = recover() }()
		a.Append(c)
	}()
	if slack == -1 {
		if pn == nil {
			return fmt.Sprintf("Append of %d bytes into %d remaining was accepted", tailLen, capA-headLen)
		}
		if df := observeFull(a, v.Listing).diff(snap); df != "" {
			return "refused Append modified the original: " + df
		}
		return ""
	}
	if pn != nil {
		return fmt.Sprintf("Append panicked: %v (tail %d bytes, remaining %d)", pn, tailLen, capA-headLen)
	}
	if resume < len(ops) && !nested {
		// keep emitting after the Append
		tgt := a
		if mode == 1 {
			tgt = cl(a)
		}
		for i, op := range ops[resume:] {
			if (applyReal(tgt, op) != nil) != outcome[resume+i] {
				return fmt.Sprintf("call #%d %s issued after the Append (mode %d): refused=%v, %v in the direct emitter", resume+i, op.name, mode, !outcome[resume+i], outcome[resume+i])
			}
			if tgt.PC() != pcAfter[resume+i] {
				return fmt.Sprintf("after call #%d %s issued after the Append (mode %d) PC is $%06x, the direct emitter's is $%06x", resume+i, op.name, mode, tgt.PC(), pcAfter[resume+i])
			}
		}
		if mode == 1 {
			func() {
				defer func() { pn = recover() }()
				a.Append(tgt)
			}()
			if pn != nil {
				return fmt.Sprintf("second Append panicked: %v", pn)
			}
		}
	}
	scribble()
	if df := observeFull(a, v.Listing).diff(observeFull(d, v.Listing)); df != "" {
		if resume < len(ops) {
			return fmt.Sprintf("after Append and %d further calls (mode %d) the emitter differs from the direct one: %s", len(ops)-resume, mode, df)
		}
		return "after Append the emitter differs from the direct one: " + df
	}
	if dry {
		return "" // there are no bytes to patch: Finalize on an emitter without a target is outside the listed properties
	}
	// Finalize outcome and finalized bytes: like the direct emitter (which of several errors is reported
	// depends on map order; whether Finalize is RIGHT is C06's question, not this one's)
	ea, ed := a.Finalize(), d.Finalize()
	if (ea == nil) != (ed == nil) {
		return fmt.Sprintf("Finalize: appended %v, direct %v", ea, ed)
	}
	if ea == nil {
		if df := observeFull(a, v.Listing).diff(observeFull(d, v.Listing)); df != "" {
			return "after Finalize the emitters differ: " + df
		}
	}
	return ""
}

func c16DecoyOps() []asmOp {
	ops, _ := opsByName([]string{"BNE(a)", "BNE(b)", "JMP_abs(a)", "JMP_abs(b)", "BRA(a)", "NOP", "SEP(#$20)"})
	return ops
}

func replayC16(raw json.RawMessage) (string, error) {
	var h asmHistory
	if err := json.Unmarshal(raw, &h); err != nil {
		return "", err
	}
	ops, err := opsByName(h.Ops)
	if err != nil {
		return "", err
	}
	for _, slack := range []int{99, 1, 0, -1} {
		for _, decoy := range []bool{false, true} {
			if d := c16Run(h.Variant, ops, h.Split, slack, decoy); d != "" {
				return fmt.Sprintf("%+v %v split %d slack %d decoy %v: %s", h.Variant, h.Ops, h.Split, slack, decoy, d), fmt.Errorf("unexplained:clone-append")
			}
		}
	}
	for resume := h.Split; resume <= len(ops); resume++ {
		for mode := 0; mode <= 2; mode++ {
			if d := c16RunFull(h.Variant, ops, h.Split, resume, mode, 99, false, true); d != "" {
				return fmt.Sprintf("%+v %v split %d resume %d mode %d, emitters without a target buffer: %s", h.Variant, h.Ops, h.Split, resume, mode, d), fmt.Errorf("unexplained:clone-append")
			}
			if d := c16RunShape(h.Variant, ops, h.Split, resume, mode, 99, false, false, true); d != "" {
				return fmt.Sprintf("%+v %v split %d resume %d mode %d, clones in the parent's free tail: %s", h.Variant, h.Ops, h.Split, resume, mode, d), fmt.Errorf("unexplained:clone-append")
			}
		}
	}
	for resume := h.Split; resume < len(ops); resume++ {
		for mode := 0; mode <= 2; mode++ {
			if d := c16RunResume(h.Variant, ops, h.Split, resume, mode, 99, false); d != "" {
				return fmt.Sprintf("%+v %v split %d resume %d mode %d: %s", h.Variant, h.Ops, h.Split, resume, mode, d), fmt.Errorf("unexplained:clone-append")
			}
		}
	}
	return "Clone/Append is indistinguishable from direct emission for this history and split", nil
}

func runC16(r *report.Run) {
	thorough := r.Tier == "thorough"
	variants := asmVariants()
	mk := func(withSlack bool) func(v asmVariant, al []asmOp, idx []int) (string, string, int, *asmHistory) {
		return func(v asmVariant, al []asmOp, idx []int) (string, string, int, *asmHistory) {
			ops := make([]asmOp, len(idx))
			for i, k := range idx {
				ops[i] = al[k]
			}
			n := 0
			for split := 0; split <= len(ops); split++ {
				slacks := []int{99}
				if withSlack {
					slacks = []int{99, 0, 1, -1}
				}
				for _, slack := range slacks {
					for _, decoy := range []bool{false, true} {
						if decoy && (slack != 99 || !withSlack) {
							continue // decoy-clone variants: stage 1 only
						}
						n++
						if d := c16Run(v, ops, split, slack, decoy); d != "" {
							return "unexplained:clone-append", fmt.Sprintf("%+v %v split %d slack %d decoy-clone %v: %s", v, historyNames(al, idx), split, slack, decoy, d), n, &asmHistory{Variant: v, Ops: historyNames(al, idx), Capacity: 512, Split: split}
						}
					}
				}
				if withSlack {
					n++
					if d := c16RunShape(v, ops, split, len(ops), 0, 99, false, false, true); d != "" {
						return "unexplained:clone-append", fmt.Sprintf("%+v %v split %d, clone emitting into the free tail of its parent's buffer: %s", v, historyNames(al, idx), split, d), n, &asmHistory{Variant: v, Ops: historyNames(al, idx), Capacity: 512, Split: split}
					}
					n++
					if d := c16RunFull(v, ops, split, len(ops), 0, 99, false, true); d != "" {
						return "unexplained:clone-append", fmt.Sprintf("%+v %v split %d, emitters without a target buffer: %s", v, historyNames(al, idx), split, d), n, &asmHistory{Variant: v, Ops: historyNames(al, idx), Capacity: -1, Split: split}
					}
					// stage 1 only: emission continues after the Append, directly or through a second clone
					for resume := split; resume < len(ops); resume++ {
						for mode := 0; mode <= 2; mode++ {
							n++
							if d := c16RunResume(v, ops, split, resume, mode, 99, false); d != "" {
								return "unexplained:clone-append", fmt.Sprintf("%+v %v split %d resume %d mode %d: %s", v, historyNames(al, idx), split, resume, mode, d), n, &asmHistory{Variant: v, Ops: historyNames(al, idx), Capacity: 512, Split: split}
							}
							n++
							if d := c16RunShape(v, ops, split, resume, mode, 99, false, false, true); d != "" {
								return "unexplained:clone-append", fmt.Sprintf("%+v %v split %d resume %d mode %d, clones emitting into the free tail of their parent's buffer: %s", v, historyNames(al, idx), split, resume, mode, d), n, &asmHistory{Variant: v, Ops: historyNames(al, idx), Capacity: 512, Split: split}
							}
							n++
							if d := c16RunFull(v, ops, split, resume, mode, 99, false, true); d != "" {
								return "unexplained:clone-append", fmt.Sprintf("%+v %v split %d resume %d mode %d, emitters without a target buffer: %s", v, historyNames(al, idx), split, resume, mode, d), n, &asmHistory{Variant: v, Ops: historyNames(al, idx), Capacity: -1, Split: split}
							}
						}
					}
				}
			}
			return "", "", n, nil
		}
	}
	// stage 1: every variant, with the Append capacity edges; stage 2: deeper, on two variants
	d1, d2 := 3, 4
	deep := []asmVariant{variants[2], variants[5]} // listing on / base $008000; listing off / base unset
	if thorough {
		d1, d2 = 4, 5
	}
	stage1 := append(append([]asmVariant(nil), variants...), asmVariantsPre()...)
	hist, trans, st := asmHistorySearch(d1, stage1, mk(true), r, 512)
	h2, t2, s2 := asmHistorySearch(d2, deep, mk(false), r, 512)
	hist, trans, st = hist+h2, trans+t2, st+s2
	// flag sweep: the tracked flags travel with the clone whatever bits the tail touched -- REP/SEP and
	// AssumeREP/AssumeSEP with all 256 masks in the clone (the alphabet above only has #$20)
	var nf int64
	for _, v := range deep {
		for _, pat := range []string{"SEP(#$%02x)", "REP(#$%02x)", "AssumeSEP($%02x)", "AssumeREP($%02x)"} {
			for mask := 0; mask < 256; mask++ {
				names := []string{"AssumeSEP($cf)", fmt.Sprintf(pat, mask), "NOP"}
				ops, err := opsByName(names)
				if err != nil {
					r.Violation("oracle-broken", err.Error(), nil)
					continue
				}
				for split := 0; split <= 2; split++ {
					for resume := split; resume <= 3; resume++ {
						nf++
						if d := c16RunFull(v, ops, split, resume, 0, 99, false, false); d != "" {
							r.ViolationSized("unexplained:clone-append", fmt.Sprintf("%+v %v split %d resume %d: %s", v, names, split, resume, d), asmHistory{Variant: v, Ops: names, Capacity: 512, Split: split}, 3)
						}
					}
				}
			}
		}
	}
	st += nf
	r.Set("flag_sweep_cases", nf)
	// long programs (120 and 300 calls): lists of lines, labels and references grow well past their first
	// capacity steps; splits at a few points, every buffer shape and mode
	var nl int64
	for _, v := range deep {
		for salt, n := range []int{120, 300} {
			ops := asmLongProgram(n, salt)
			for _, split := range []int{0, 1, n / 3, n / 2, n - 1, n} {
				for _, resume := range []int{split, (split + n) / 2, n} {
					if resume < split {
						continue
					}
					for mode := 0; mode <= 2; mode++ {
						for shape := 0; shape < 3; shape++ {
							nl++
							if d := c16RunShape(v, ops, split, resume, mode, 99, false, shape == 1, shape == 2); d != "" {
								r.ViolationSized("unexplained:clone-append", fmt.Sprintf("%+v long program (%d calls, salt %d) split %d resume %d mode %d shape %d: %s", v, n, salt, split, resume, mode, shape, d), asmHistory{Variant: v, Ops: opNames(ops), Capacity: 512, Split: split}, n)
							}
						}
					}
				}
			}
		}
	}
	st += nl
	r.Set("long_program_cases", nl)
	depth := fmt.Sprintf("%d (all %d variants, with Append capacity edges) and %d (2 variants)", d1, len(stage1), d2)
	r.Set("states", st)
	r.Set("transitions", trans)
	r.Set("traces_validated_against_impl", st)
	r.Set("evaluations", st)
	r.Set("distinct_nontrivial", st-hist)
	r.Set("histories", hist)
	r.Set("history_x_split_x_capacity_cases", st)
	r.Set("bounds", map[string]interface{}{"history_depth": depth, "alphabet": len(asmAlphabet()), "constructor_variants": len(stage1), "splits": "every split point 0..n; at the first depth also every resume point (clone gets ops[split:resume], the rest is emitted after the Append directly, through a second Clone/Append, or before it through a clone of the clone)", "append_capacity_slack": []int{-1, 0, 1}})
	r.Set("rule", "every call sequence up to the depth x every split point x every constructor variant: head into A, A.Clone, tail into the clone, A.Append(clone), compared with a direct emitter on Bytes/Len/PC/Flags/GetLabel/text and hex listings/Finalize outcome and finalized bytes; A is compared with its own snapshot before Append; at the first depth every scenario is also run with emitters that have no target buffer (NewEmitter(nil), Clone(nil)) and with clones that emit into the free tail of their parent's own buffer and the emitter keeps emitting after the Append (every resume point: directly, through a second Clone/Append, or nested through a clone of the clone) and must still equal the direct one; a flag sweep puts REP/SEP/AssumeREP/AssumeSEP with every mask into the clone; Append with remaining capacity exactly tail-1 must be refused leaving A unchanged, tail and tail+1 must succeed; non-trivial = split strictly inside or capacity-edge cases")
	r.Sample(asmHistory{Variant: variants[2], Ops: []string{"BNE(a)", "Label(b)", "JMP_abs(b)", "Label(a)"}, Capacity: 512, Split: 2})
	r.Assume("Finalize error choice depends on Go map order: the two emitters must both fail or both succeed, the errors need not be equal")
}
