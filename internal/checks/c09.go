package checks

import (
	"bytes"
	"encoding/hex"
	"encoding/json"
	"fmt"
	"reflect"
	"sync/atomic"

	snes "github.com/alttpo/snes"

	"verif/internal/par"
	"verif/internal/report"
)

func init() {
	Registry["C09"] = Check{Level: "exploration", Run: runC09, Replay: replayC09}
}

type c09Case struct {
	Header string `json:"header"` // 80 bytes, hex, content of $FFB0-$FFFF
	Size   int    `json:"size"`   // image size
}

// independent layout table: (field path, cartridge address, width in bytes; arrays are byte arrays)
type c09Field struct {
	Name string
	Addr uint32
	W    int
	Arr  bool
	Ext  bool // extended (version 2/3) field, reported as zero for version 1
}

var c09Layout = []c09Field{
	{"MakerCode", 0xFFB0, 2, false, true}, {"GameCode", 0xFFB2, 4, false, true}, {"Fixed1", 0xFFB6, 6, true, true},
	{"FlashSize", 0xFFBC, 1, false, true}, {"ExpansionRAMSize", 0xFFBD, 1, false, true}, {"SpecialVersion", 0xFFBE, 1, false, true}, {"CoCPUType", 0xFFBF, 1, false, true},
	{"Title", 0xFFC0, 21, true, false}, {"MapMode", 0xFFD5, 1, false, false}, {"CartridgeType", 0xFFD6, 1, false, false}, {"ROMSize", 0xFFD7, 1, false, false},
	{"RAMSize", 0xFFD8, 1, false, false}, {"DestinationCode", 0xFFD9, 1, false, false}, {"OldMakerCode", 0xFFDA, 1, false, false}, {"MaskROMVersion", 0xFFDB, 1, false, false},
	{"ComplementCheckSum", 0xFFDC, 2, false, false}, {"CheckSum", 0xFFDE, 2, false, false},
	{"NativeVectors.Unused1", 0xFFE0, 4, true, false}, {"NativeVectors.COP", 0xFFE4, 2, false, false}, {"NativeVectors.BRK", 0xFFE6, 2, false, false},
	{"NativeVectors.ABORT", 0xFFE8, 2, false, false}, {"NativeVectors.NMI", 0xFFEA, 2, false, false}, {"NativeVectors.Unused2", 0xFFEC, 2, false, false}, {"NativeVectors.IRQ", 0xFFEE, 2, false, false},
	{"EmulatedVectors.Unused1", 0xFFF0, 4, true, false}, {"EmulatedVectors.COP", 0xFFF4, 2, false, false}, {"EmulatedVectors.Unused2", 0xFFF6, 2, false, false},
	{"EmulatedVectors.ABORT", 0xFFF8, 2, false, false}, {"EmulatedVectors.NMI", 0xFFFA, 2, false, false}, {"EmulatedVectors.RESET", 0xFFFC, 2, false, false}, {"EmulatedVectors.IRQBRK", 0xFFFE, 2, false, false},
}

// c09Get reads the exported field named by path as little-endian-assembled integer or byte slice.
func c09Get(h *snes.Header, path string) (uint64, []byte, bool) {
	v := reflect.ValueOf(h).Elem()
	for _, p := range bytes.Split([]byte(path), []byte(".")) {
		v = v.FieldByName(string(p))
		if !v.IsValid() {
			return 0, nil, false
		}
	}
	switch v.Kind() {
	case reflect.Uint8, reflect.Uint16, reflect.Uint32, reflect.Uint64:
		return v.Uint(), nil, true
	case reflect.Array:
		b := make([]byte, v.Len())
		for i := range b {
			b[i] = byte(v.Index(i).Uint())
		}
		return 0, b, true
	}
	return 0, nil, false
}

func c09ExpectedVersion(hb []byte) int {
	if hb[0x2A] == 0x33 { // $FFDA
		return 3
	}
	if hb[0x24] == 0 { // $FFD4, last title byte
		return 2
	}
	return 1
}

// c09CheckHeader parses hb with the real code and compares every field with the layout table.
func c09CheckHeader(hb []byte) (sig, what string) {
	var h snes.Header
	if err := h.ReadHeader(bytes.NewReader(hb)); err != nil {
		return "unexplained:read-error", "ReadHeader failed: " + err.Error()
	}
	wantV := c09ExpectedVersion(hb)
	if h.HeaderVersion() != wantV {
		return "unexplained:version", fmt.Sprintf("header version %d, want %d ($FFDA=%02x $FFD4=%02x)", h.HeaderVersion(), wantV, hb[0x2A], hb[0x24])
	}
	covered := make([]bool, 80)
	for _, f := range c09Layout {
		n, arr, ok := c09Get(&h, f.Name)
		if !ok {
			return "unexplained:field-missing", "Header has no exported field " + f.Name
		}
		o := int(f.Addr - 0xFFB0)
		for i := 0; i < f.W; i++ {
			covered[o+i] = true
		}
		zero := f.Ext && wantV == 1
		if f.Arr {
			want := append([]byte(nil), hb[o:o+f.W]...)
			if zero {
				want = make([]byte, f.W)
			}
			if !bytes.Equal(arr, want) {
				return "unexplained:field:" + f.Name, fmt.Sprintf("%s = %x, want %x (bytes at $%04X)", f.Name, arr, want, f.Addr)
			}
		} else {
			var want uint64
			for i := f.W - 1; i >= 0; i-- {
				want = want<<8 | uint64(hb[o+i])
			}
			if zero {
				want = 0
			}
			if n != want {
				return "unexplained:field:" + f.Name, fmt.Sprintf("%s = $%x, want $%x (little-endian at $%04X)", f.Name, n, want, f.Addr)
			}
		}
	}
	for i, c := range covered {
		if !c {
			return "oracle-broken", fmt.Sprintf("layout table does not cover $%04X", 0xFFB0+i)
		}
	}
	// the query methods are read-only: asking a parsed header about itself must not change it
	{
		snap := h
		for _, a := range []uint32{0x007FB0, 0x00FFB0, 0x40FFB0, 0} {
			_ = h.Score(a)
		}
		_, _, _ = h.ROMSizeBytes(), h.RAMSizeBytes(), h.HeaderVersion()
		if !reflect.DeepEqual(h, snap) {
			return "unexplained:query-changes-header", fmt.Sprintf("Score/ROMSizeBytes/RAMSizeBytes/HeaderVersion changed the parsed header: %+v -> %+v", snap, h)
		}
	}
	// serialise: 80 bytes that parse back to an identical header
	var buf bytes.Buffer
	if err := h.WriteHeader(&buf); err != nil {
		return "unexplained:write-error", "WriteHeader failed: " + err.Error()
	}
	if buf.Len() != 80 {
		return "unexplained:write-length", fmt.Sprintf("WriteHeader produced %d bytes, want 80", buf.Len())
	}
	wb := buf.Bytes()
	lo := 0
	if wantV == 1 {
		lo = 16
		if !bytes.Equal(wb[:16], make([]byte, 16)) {
			return "unexplained:write-bytes", fmt.Sprintf("version 1 header serialises extended fields as %x, want zeros", wb[:16])
		}
	}
	if !bytes.Equal(wb[lo:], hb[lo:]) {
		return "unexplained:write-bytes", fmt.Sprintf("WriteHeader bytes differ from the parsed bytes at offset %d", lo+firstDiff(wb[lo:], hb[lo:]))
	}
	var h2 snes.Header
	if err := h2.ReadHeader(bytes.NewReader(wb)); err != nil {
		return "unexplained:reparse-error", err.Error()
	}
	if !reflect.DeepEqual(h, h2) || h.HeaderVersion() != h2.HeaderVersion() {
		return "unexplained:reparse-differs", fmt.Sprintf("parse(write(parse(x))) differs from parse(x): %+v vs %+v", h2, h)
	}
	// the reader and the buffer are the caller's: a header is decoded from where the reader stands (two
	// headers behind a prefix parse as themselves, one after the other) and appended to what the buffer holds
	other := make([]byte, 80)
	for i := range other {
		other[i] = hb[79-i] ^ 0x5A
	}
	stream := append(append(append([]byte{0xDE, 0xAD, 0xBE}, hb...), other...), 0xEF, 0x01)
	rd := bytes.NewReader(stream)
	rd.Seek(3, 0)
	var s1, s2, o snes.Header
	if err := s1.ReadHeader(rd); err != nil {
		return "unexplained:read-error", "ReadHeader from a positioned reader failed: " + err.Error()
	}
	if !reflect.DeepEqual(h, s1) || h.HeaderVersion() != s1.HeaderVersion() {
		return "unexplained:positioned-reader", fmt.Sprintf("a header read from a reader standing at offset 3 differs from the same 80 bytes read alone: %+v vs %+v", s1, h)
	}
	if err := o.ReadHeader(bytes.NewReader(other)); err != nil {
		return "unexplained:read-error", "ReadHeader failed: " + err.Error()
	}
	if err := s2.ReadHeader(rd); err != nil {
		return "unexplained:read-error", "second ReadHeader from the same reader failed: " + err.Error()
	}
	if !reflect.DeepEqual(o, s2) || o.HeaderVersion() != s2.HeaderVersion() {
		return "unexplained:positioned-reader", fmt.Sprintf("the second header of a stream differs from the same 80 bytes read alone: %+v vs %+v", s2, o)
	}
	pre := bytes.NewBufferString("xyz")
	if err := h.WriteHeader(pre); err != nil {
		return "unexplained:write-error", "WriteHeader into a non-empty buffer failed: " + err.Error()
	}
	if pb := pre.Bytes(); len(pb) != 83 || string(pb[:3]) != "xyz" || !bytes.Equal(pb[3:], wb) {
		return "unexplained:write-appends", fmt.Sprintf("WriteHeader into a buffer holding 3 bytes left %d bytes % x, want the 3 bytes followed by the 80 header bytes", len(pb), pb)
	}
	return "", ""
}

// c09CheckImage: NewROM / ReadHeader / WriteHeader on an image leaves it byte-identical.
func c09CheckImage(img, scratch []byte, hb []byte) (sig, what string) {
	copy(img[0x7FB0:], hb)
	copy(scratch, img)
	rom, err := snes.NewROM("t", img)
	if err != nil {
		return "unexplained:newrom", err.Error()
	}
	if rom.Header.HeaderVersion() != c09ExpectedVersion(hb) {
		return "unexplained:version", fmt.Sprintf("ROM header version %d, want %d", rom.Header.HeaderVersion(), c09ExpectedVersion(hb))
	}
	if err := rom.WriteHeader(); err != nil {
		return "unexplained:rom-write-error", err.Error()
	}
	if !bytes.Equal(img, scratch) {
		return "unexplained:image-changed", fmt.Sprintf("ReadHeader;WriteHeader changed the %d-byte image at file offset $%06x", len(img), firstDiff(img, scratch))
	}
	if err := rom.ReadHeader(); err != nil {
		return "unexplained:rom-read-error", err.Error()
	}
	if err := rom.WriteHeader(); err != nil {
		return "unexplained:rom-write-error", err.Error()
	}
	if !bytes.Equal(img, scratch) {
		return "unexplained:image-changed", "second ReadHeader;WriteHeader changed the image"
	}
	// the same ROM object after its image was edited (title, a vector, the version bytes): reading the new
	// header and writing it back must leave the EDITED image unchanged -- nothing of the earlier header lingers
	for _, edit := range [][]int{{0x13, 0x3A, 0x3B}, {0x2A}, {0x24}, {0x00, 0x4F}} {
		for _, o := range edit {
			img[0x7FB0+o] ^= 0xA5
		}
		copy(scratch, img)
		if err := rom.ReadHeader(); err != nil {
			return "unexplained:rom-read-error", err.Error()
		}
		if err := rom.WriteHeader(); err != nil {
			return "unexplained:rom-write-error", err.Error()
		}
		if !bytes.Equal(img, scratch) {
			return "unexplained:image-changed", fmt.Sprintf("after editing header bytes %v of the image (same ROM object), ReadHeader;WriteHeader changed the image at file offset $%06x: $%02x instead of $%02x", edit, firstDiff(img, scratch), img[firstDiff(img, scratch)], scratch[firstDiff(img, scratch)])
		}
	}
	// HeaderOffset and Contents are exported fields: the header can be re-read from another place (a HiROM
	// image keeps it at $FFB0) or from another image on the same ROM object
	if len(img) >= 0x10000 {
		copy(img[0xFFB0:], hb)
		for i := 0; i < 0x50; i++ {
			img[0x7FB0+i] ^= 0x3C // what sits at the old place is something else now
		}
		copy(scratch, img)
		rom.HeaderOffset = 0xFFB0
		if err := rom.ReadHeader(); err != nil {
			return "unexplained:rom-read-error", err.Error()
		}
		if rom.Header.HeaderVersion() != c09ExpectedVersion(hb) {
			return "unexplained:version", fmt.Sprintf("after moving HeaderOffset to $FFB0 the ROM header version is %d, want %d (the header at $7FB0 is a different one)", rom.Header.HeaderVersion(), c09ExpectedVersion(hb))
		}
		if err := rom.WriteHeader(); err != nil {
			return "unexplained:rom-write-error", err.Error()
		}
		if !bytes.Equal(img, scratch) {
			return "unexplained:image-changed", fmt.Sprintf("HeaderOffset=$FFB0; ReadHeader; WriteHeader changed the image at file offset $%06x", firstDiff(img, scratch))
		}
		rom.HeaderOffset = 0x7FB0
	}
	other := append([]byte(nil), img...)
	for i := 0; i < 0x50; i++ {
		other[0x7FB0+i] = hb[i] ^ byte(0x11*(i%3))
	}
	oscr := append([]byte(nil), other...)
	rom.Contents = other
	if err := rom.ReadHeader(); err != nil {
		return "unexplained:rom-read-error", err.Error()
	}
	if err := rom.WriteHeader(); err != nil {
		return "unexplained:rom-write-error", err.Error()
	}
	if !bytes.Equal(other, oscr) {
		return "unexplained:image-changed", fmt.Sprintf("Contents replaced by another image; ReadHeader; WriteHeader changed that image at file offset $%06x", firstDiff(other, oscr))
	}
	// the parsed header written into OTHER ROM objects (romB.Header = romA.Header; romB.WriteHeader()): which of
	// the 80 bytes WriteHeader stores is found out with two blank images (all $00 / all $FF there); an image
	// of another revision, differing in the first 16 header bytes or in the title, must then hold exactly
	// those bytes and keep the rest
	blank := func(fill byte, from, to int) ([]byte, *snes.ROM, error) {
		b := append([]byte(nil), other...)
		for i := from; i < to; i++ {
			b[0x7FB0+i] = other[0x7FB0+i] ^ fill
		}
		rb, err := snes.NewROM("b", b)
		if err != nil {
			return nil, nil, err
		}
		rb.Header = rom.Header
		return b, rb, rb.WriteHeader()
	}
	c0, _, e0 := blank(0xFF, 0, 0x50)
	c1, _, e1 := blank(0xA5, 0, 0x50)
	if e0 != nil || e1 != nil {
		return "unexplained:rom-write-error", fmt.Sprint(e0, e1)
	}
	for _, span := range [][2]int{{0, 0x10}, {0x10, 0x25}, {0x05, 0x0E}} {
		bimg, _, eb := blank(0x5A, span[0], span[1])
		if eb != nil {
			return "unexplained:rom-write-error", eb.Error()
		}
		for i := 0; i < 0x50; i++ {
			written := c0[0x7FB0+i] == c1[0x7FB0+i]
			want := other[0x7FB0+i]
			if !written && i >= span[0] && i < span[1] {
				want ^= 0x5A // WriteHeader does not store this byte (version-1 header): the image keeps its own
			}
			if written {
				want = c0[0x7FB0+i]
			}
			if bimg[0x7FB0+i] != want {
				return "unexplained:header-written-into-another-image", fmt.Sprintf("a parsed header written into another ROM whose image differs in header bytes $%02x..$%02x: byte $%02x of the header is $%02x afterwards, want $%02x (written into a blank image it is $%02x)", span[0], span[1]-1, i, bimg[0x7FB0+i], want, c0[0x7FB0+i])
			}
		}
	}
	return "", ""
}

func c09Run(c c09Case) (sig, what string) {
	defer func() {
		if x := recover(); x != nil {
			sig, what = "unexplained:panic", fmt.Sprint("panic: ", x)
		}
	}()
	hb, err := hex.DecodeString(c.Header)
	if err != nil || len(hb) != 80 {
		return "bad-case", "header must be 80 hex bytes"
	}
	if sig, what = c09CheckHeader(hb); sig != "" {
		return
	}
	if c.Size > 0 {
		img := make([]byte, c.Size)
		for i := range img {
			img[i] = byte(i*31 + 7)
		}
		return c09CheckImage(img, make([]byte, c.Size), hb)
	}
	return "", ""
}

func replayC09(raw json.RawMessage) (string, error) {
	var c c09Case
	if err := json.Unmarshal(raw, &c); err != nil {
		return "", err
	}
	sig, what := c09Run(c)
	if sig == "" {
		return "header round-trips and all fields match the layout table", nil
	}
	return what, fmt.Errorf("%s", sig)
}

func c09Bases() [][]byte {
	dec := func(s string) []byte {
		b, err := hex.DecodeString(s)
		if err != nil || len(b) != 80 {
			panic("bad base header")
		}
		return b
	}
	vt := dec("018d2401e2306b5c9cb1a1ffffffffff" + "565420715a474c726d52766b36202020" + "202020202030020b050001001f29e0d6" + "01000400b7ffb7ff2c82ab980080af98" + "ffffffffb7ff2c822c822c820080d882")
	zelda := dec("018d2401e2306bffffffffffffffffff" + "544845204c4547454e44204f46205a45" + "4c4441202020020a03010100f2500daf" + "ffffffff2c82ffff2c82c9800080d882" + "ffffffff2c822c822c822c820080d882")
	zero := make([]byte, 80)
	ones := bytes.Repeat([]byte{0xFF}, 80)
	v2 := append([]byte(nil), zelda...)
	v2[0x24] = 0
	v2[0x2A] = 0x01
	v3 := append([]byte(nil), vt...)
	v3[0x2A] = 0x33
	pat := make([]byte, 80)
	for i := range pat {
		pat[i] = byte(i + 1)
	}
	return [][]byte{vt, zelda, zero, ones, v2, v3, pat}
}

func runC09(r *report.Run) {
	thorough := r.Tier == "thorough"
	bases := c09Bases()
	type job struct {
		hb   []byte
		size int
	}
	var jobs []job
	add := func(hb []byte, size int) { jobs = append(jobs, job{append([]byte(nil), hb...), size}) }
	alpha := []byte{0x00, 0x01, 0x33, 0x7F, 0x80, 0xFF}
	for _, b := range bases {
		add(b, 0x8000)
		// deviation bound 1: every position x every value, on two image sizes
		for pos := 0; pos < 80; pos++ {
			for v := 0; v < 256; v++ {
				h := append([]byte(nil), b...)
				h[pos] = byte(v)
				size := 0x8000
				if v&1 == 1 {
					size = 0x10000
				}
				jobs = append(jobs, job{h, size})
			}
		}
		// the two version bytes: full product
		for x := 0; x < 256; x++ {
			for y := 0; y < 256; y++ {
				h := append([]byte(nil), b...)
				h[0x24], h[0x2A] = byte(x), byte(y)
				jobs = append(jobs, job{h, 0})
			}
		}
		// deviation bound 2 on arbitrary position pairs with the value alphabet
		step := 1
		if !thorough {
			step = 1
		}
		for p1 := 0; p1 < 80; p1 += step {
			for p2 := p1 + 1; p2 < 80; p2++ {
				for _, v1 := range alpha {
					for _, v2 := range alpha {
						h := append([]byte(nil), b...)
						h[p1], h[p2] = v1, v2
						jobs = append(jobs, job{h, 0})
					}
				}
			}
		}
		// larger images: version-relevant and edge positions
		for _, size := range []int{0x18000, 0x400000} {
			for _, pos := range []int{0, 15, 16, 0x24, 0x2A, 79} {
				for _, v := range alpha {
					h := append([]byte(nil), b...)
					h[pos] = v
					jobs = append(jobs, job{h, size})
				}
			}
		}
	}
	if thorough {
		// deviation bound 3 around the version bytes: both version bytes x every other position x alphabet
		for _, b := range bases {
			for _, x := range alpha {
				for _, y := range alpha {
					for pos := 0; pos < 80; pos++ {
						for v := 0; v < 256; v++ {
							h := append([]byte(nil), b...)
							h[0x24], h[0x2A] = x, y
							h[pos] = byte(v)
							jobs = append(jobs, job{h, 0x8000})
						}
					}
				}
			}
		}
	}
	var evals, nontrivial int64
	var vcount [4]int64
	w := par.Workers()
	imgs := make([]map[int][2][]byte, w)
	for i := range imgs {
		imgs[i] = map[int][2][]byte{}
	}
	par.For(len(jobs), func(wk, i int) {
		j := jobs[i]
		func() {
			defer func() {
				if x := recover(); x != nil {
					r.Violation("unexplained:panic", fmt.Sprint("panic: ", x), c09Case{hex.EncodeToString(j.hb), j.size})
				}
			}()
			sig, what := c09CheckHeader(j.hb)
			if sig == "" && j.size > 0 {
				pair, ok := imgs[wk][j.size]
				if !ok {
					a := make([]byte, j.size)
					for k := range a {
						a[k] = byte(k*31 + 7)
					}
					pair = [2][]byte{a, make([]byte, j.size)}
					imgs[wk][j.size] = pair
				}
				sig, what = c09CheckImage(pair[0], pair[1], j.hb)
			}
			if sig != "" {
				r.Violation(sig, what, c09Case{hex.EncodeToString(j.hb), j.size})
			}
		}()
		atomic.AddInt64(&evals, 1)
		atomic.AddInt64(&vcount[c09ExpectedVersion(j.hb)], 1)
	})
	seen := map[string]struct{}{}
	for _, j := range jobs {
		seen[string(j.hb)] = struct{}{}
	}
	nontrivial = int64(len(seen))
	r.Set("evaluations", evals)
	r.Set("distinct_nontrivial", nontrivial)
	r.Set("headers_by_expected_version", map[string]int64{"v1": vcount[1], "v2": vcount[2], "v3": vcount[3]})
	r.Set("rule", "7 base headers x every single-byte deviation (80 positions x 256 values), x the full 256x256 product of the two version bytes ($FFD4,$FFDA), x every pair of positions with the 6-value alphabet; image round trip on 32 KiB/64 KiB images for all single deviations and on 96 KiB/4 MiB images for edge positions; distinct_nontrivial = number of distinct 80-byte header contents parsed (each is parsed, compared field by field with the layout table, serialised and re-parsed)")
	r.Set("exhaustive", true)
	r.Set("completeness_argument", "parsing is a fixed byte-to-field permutation independent of content and the version depends on two bytes only; single deviations over all positions and values plus the full product of the two version bytes cover every way the layout or version rule can be wrong, pairs add interactions")
	r.Sample(c09Case{hex.EncodeToString(bases[0]), 0x8000})
	r.Sample(c09Case{hex.EncodeToString(bases[5]), 0x10000})
	r.Assume("the layout table c09Layout (field, cartridge address, width) is the documented SNES header layout; it is checked to cover all 80 bytes exactly")
}
