package checks

import (
	"encoding/json"
	"fmt"
	"strings"

	"verif/internal/report"
)

func init() {
	Registry["C19"] = Check{Level: "model_checking", Run: runC19, Replay: replayC19}
}

func c19Classify(d string) string {
	// alternative model of the REP/SEP defect: a refused REP/SEP had already changed the tracked flags
	if strings.Contains(d, "was refused") && (strings.Contains(d, "SEP(") || strings.Contains(d, "REP(")) && strings.Contains(d, "flags=") {
		return "refused-rep-sep-changes-tracked-flags"
	}
	return "unexplained:capacity"
}

// c19History replays the calls against the capacity model and, for a real buffer, finalizes: a
// refused label-referencing call must not have registered a reference.
func c19History(v asmVariant, capacity int, ops []asmOp, window bool) string {
	e, m, d := runHistoryShape(v, capacity, ops, window)
	if d == "" && capacity >= 0 {
		if d = checkFinalize(e, m); d != "" {
			d = "after the history (refusals included): " + d
		}
	}
	return d
}

func c19Run(h asmHistory) (sig, what string) {
	ops, err := opsByName(h.Ops)
	if err != nil {
		return "bad-case", err.Error()
	}
	if d := c19History(h.Variant, h.Capacity, ops, h.Window); d != "" {
		return c19Classify(d), fmt.Sprintf("%+v capacity %d window=%v %v: %s", h.Variant, h.Capacity, h.Window, h.Ops, d)
	}
	return "", ""
}

func replayC19(raw json.RawMessage) (string, error) {
	var h asmHistory
	if err := json.Unmarshal(raw, &h); err != nil {
		return "", err
	}
	sig, what := c19Run(h)
	if sig == "" {
		return "every call agrees with the capacity model", nil
	}
	return what, fmt.Errorf("%s", sig)
}

func runC19(r *report.Run) {
	thorough := r.Tier == "thorough"
	depth := 4
	if thorough {
		depth = 5
	}
	all := asmVariants()
	variants := []asmVariant{all[5], all[2]} // listing off / base unset; listing on / base $008000
	var capCases int64
	visit := func(v asmVariant, al []asmOp, idx []int) (string, string, int, *asmHistory) {
		ops := make([]asmOp, len(idx))
		for i, k := range idx {
			ops[i] = al[k]
		}
		// unbounded size of the program
		mm := newModelFor(v, 1<<20)
		for _, op := range ops {
			op.model(mm)
		}
		size := len(mm.bytes)
		n := 0
		for capacity := -1; capacity <= size+1; capacity++ {
			// both shapes of target: a whole array (len == cap) and a window of a larger one (len < cap)
			for _, window := range []bool{false, true} {
				if window && capacity < 0 {
					continue
				}
				n++
				if d := c19History(v, capacity, ops, window); d != "" {
					return c19Classify(d), fmt.Sprintf("%+v capacity %d window=%v %v: %s", v, capacity, window, historyNames(al, idx), d), n, &asmHistory{Variant: v, Ops: historyNames(al, idx), Capacity: capacity, Window: window}
				}
			}
		}
		return "", "", n, nil
	}
	hist, trans, st := asmHistorySearch(depth, variants, visit, r, 0)
	capCases = st
	if thorough {
		// all ten constructor variants one level shallower (the deep pass above runs on two of them:
		// depth 5 on all ten is 2.7*10^9 (history, capacity) cases, well over an hour on 16 cores)
		h2, t2, s2 := asmHistorySearch(depth-1, all, visit, r, 0)
		hist, trans, capCases = hist+h2, trans+t2, capCases+s2
	}
	r.Set("states", capCases)
	r.Set("transitions", trans)
	r.Set("traces_validated_against_impl", capCases)
	r.Set("evaluations", capCases)
	r.Set("distinct_nontrivial", capCases-hist)
	r.Set("histories", hist)
	r.Set("history_x_capacity_cases", capCases)
	r.Set("bounds", map[string]interface{}{"history_depth": depth, "alphabet": len(asmAlphabet()), "constructor_variants": len(variants), "thorough_second_pass": "all 10 constructor variants at depth 4", "capacities": "every capacity from 0 to program size + 1, each as a whole array (len == cap) and as a window of a larger canary-filled array (len < cap), plus the nil-target (dry-run) emitter"})
	r.Set("rule", "every call sequence up to the depth x every buffer capacity from 0 to the program's size + 1 and the nil-target emitter: each call runs on a fresh real Emitter and on the capacity model, the target buffer given once as a whole array and once as a window of a larger array whose bytes outside the window must stay untouched; a call that does not fit must panic and leave Bytes/Len/PC/Flags/labels unchanged, the history continues after a refusal, a call that fits must behave as in the unbounded model, and the nil-target emitter must report the same PC, labels and flags after every call; non-trivial = capacity below the program size or nil target (at least one call differs from the roomy run)")
	r.Sample(asmHistory{Variant: variants[0], Ops: []string{"LDA_abs($1234)", "JSL($123456)", "NOP"}, Capacity: 5})
	r.Sample(asmHistory{Variant: variants[1], Ops: []string{"SEP(#$20)", "LDA_imm8_b($7F)", "EmitBytes(17)"}, Capacity: -1})
	r.Assume("listing lines are not part of the property's list and are not compared here")
}
