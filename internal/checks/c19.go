package checks

import (
	"bytes"
	"encoding/json"
	"fmt"
	"strings"

	"github.com/alttpo/snes/asm"

	"verif/internal/report"
)

func init() {
	Registry["C19"] = Check{Level: "model_checking", Run: runC19, Replay: replayC19}
}

func c19Classify(d string) string {
	// alternative model of the REP/SEP defect: a refused REP/SEP had already changed the tracked flags
	if strings.Contains(d, "was refused") && (strings.Contains(d, "SEP(") || strings.Contains(d, "REP(")) && strings.Contains(d, "flags=") {
		return "refused-rep-sep-changes-tracked-flags"
	}
	return "unexplained:capacity"
}

// c19History is differential: the emitter under test B (a target of the given capacity, or no target
// at all when capacity < 0) runs next to a twin T with ample room that receives exactly the calls B
// accepted. The twin says how many bytes a call needs; nothing is predicted from a model, so what the
// emitter encodes, which width guards or duplicate labels it refuses and how it resolves labels (other
// properties) cannot raise an alarm here -- only behaviour that depends on the room left can.
func c19History(v asmVariant, capacity int, ops []asmOp, window, viaClone bool) string {
	roomy := 224 // the longest short history of the alphabet emits 5 x 33 bytes
	if len(ops) > 8 || hasBigBlock(ops) {
		roomy = 16384 // the long programs
	}
	dry := capacity < 0
	var b *asm.Emitter
	var g *asmGuard
	switch {
	case viaClone && !dry:
		// the emitter under test is a Clone (of a fresh emitter) over the target: same capacity rules
		b = newRealEmitter(v, 0).Clone(make([]byte, capacity))
	case window && !dry:
		b, g = newRealEmitterWindow(v, capacity)
	default:
		b = newRealEmitter(v, capacity)
	}
	t := newRealEmitter(v, roomy)
	accepted := make([]asmOp, 0, len(ops))
	for i, op := range ops {
		tLen := t.Len()
		tpn := applyReal(t, op)
		ta := observe(t, asmLabelNames)
		need := ta.n - tLen
		bb := observe(b, asmLabelNames)
		bpn := applyReal(b, op)
		ba := observe(b, asmLabelNames)
		if dry {
			if (bpn != nil) != (tpn != nil) {
				return fmt.Sprintf("call #%d %s: the nil-target emitter refused=%v (%v), an emitter with a buffer refused=%v (%v)", i, op.name, bpn != nil, bpn, tpn != nil, tpn)
			}
			if ba.pc != ta.pc || ba.flags != ta.flags || !sameLabels(ba.labels, ta.labels) {
				return fmt.Sprintf("after call #%d %s the nil-target emitter reports pc=$%06x flags=%02x labels=%v, an emitter with a buffer pc=$%06x flags=%02x labels=%v", i, op.name, ba.pc, ba.flags, ba.labels, ta.pc, ta.flags, ta.labels)
			}
			continue
		}
		if tpn != nil {
			// refused for a reason of its own (width guard, duplicate label): B is in the same state and must agree
			if bpn == nil {
				return fmt.Sprintf("call #%d %s: refused in a roomy buffer (%v) but accepted with capacity %d", i, op.name, tpn, capacity)
			}
			continue
		}
		if bb.n+need <= capacity {
			if bpn != nil {
				return fmt.Sprintf("call #%d %s needs %d bytes, Len=%d Cap=%d: it fits but was refused (%v)", i, op.name, need, bb.n, capacity, bpn)
			}
			if !ba.equal(ta) {
				return fmt.Sprintf("after call #%d %s (fits): %v, the same calls in a roomy buffer give %v", i, op.name, ba, ta)
			}
			accepted = append(accepted, op)
		} else {
			if bpn == nil {
				return fmt.Sprintf("call #%d %s needs %d bytes, Len=%d Cap=%d: it does not fit but was accepted; now %v", i, op.name, need, bb.n, capacity, ba)
			}
			if !ba.equal(bb) {
				return fmt.Sprintf("call #%d %s was refused (%v) but changed the emitter: before %v after %v", i, op.name, bpn, bb, ba)
			}
			// the twin must not have the refused call: rebuild it from the accepted ones
			t = newRealEmitter(v, roomy)
			for _, a := range accepted {
				applyReal(t, a)
			}
		}
		if ba.n > capacity || b.Cap() != capacity {
			return fmt.Sprintf("after call #%d %s: Len()=%d Cap()=%d with a %d-byte target", i, op.name, ba.n, b.Cap(), capacity)
		}
		if d := g.intact(); d != "" {
			return fmt.Sprintf("call #%d %s wrote outside the target buffer: %s", i, op.name, d)
		}
	}
	if dry {
		return ""
	}
	for _, op := range ops {
		if strings.HasPrefix(op.name, "SetBase(") {
			// Finalize locates operands at address - base with the one base it knows: after a SetBase in
			// mid-sequence its outcome (error, or a wild index, depending on map order) says nothing about capacity
			return ""
		}
	}
	// a refused label-referencing call must not have registered a reference: Finalize like the twin
	fin := func(e *asm.Emitter) (err error, pn interface{}) {
		defer func() { pn = recover() }()
		return e.Finalize(), nil
	}
	eb, pb := fin(b)
	et, pt := fin(t)
	if (eb == nil) != (et == nil) || (pb == nil) != (pt == nil) {
		return fmt.Sprintf("after the history (refusals included) Finalize returns %v (panic %v); an emitter that received only the accepted calls returns %v (panic %v)", eb, pb, et, pt)
	}
	if eb == nil && pb == nil && !bytes.Equal(b.Bytes(), t.Bytes()) {
		return fmt.Sprintf("after the history (refusals included) finalized bytes are % x; an emitter that received only the accepted calls has % x", b.Bytes(), t.Bytes())
	}
	if d := g.intact(); d != "" {
		return "Finalize wrote outside the target buffer: " + d
	}
	return ""
}

// c19DryClone: the nil-target emitter measures a program that is partly emitted through a Clone(nil) that
// is Appended back: PC, tracked flags and label addresses at the end must be those of an emitter with a
// buffer that received the calls directly.
func c19DryClone(v asmVariant, ops []asmOp, split int) string {
	room := 224
	if len(ops) > 8 || hasBigBlock(ops) {
		room = 16384
	}
	t := newRealEmitter(v, room)
	b := newRealEmitter(v, -1)
	for _, op := range ops {
		applyReal(t, op)
	}
	for _, op := range ops[:split] {
		applyReal(b, op)
	}
	var pn interface{}
	func() {
		defer func() { pn = recover() }()
		c := b.Clone(nil)
		for _, op := range ops[split:] {
			applyReal(c, op)
		}
		b.Append(c)
	}()
	if pn != nil {
		return fmt.Sprintf("Clone(nil)/Append on an emitter without a target buffer panicked: %v", pn)
	}
	tb, bb := observe(t, asmLabelNames), observe(b, asmLabelNames)
	if bb.pc != tb.pc || bb.flags != tb.flags || !sameLabels(bb.labels, tb.labels) {
		return fmt.Sprintf("an emitter without a target buffer whose calls #%d.. went through Clone(nil)/Append reports pc=$%06x flags=%02x labels=%v, an emitter with a buffer pc=$%06x flags=%02x labels=%v", split, bb.pc, bb.flags, bb.labels, tb.pc, tb.flags, tb.labels)
	}
	return ""
}

// c19AppendBounded: the head of the history goes into an emitter with a buffer of the given capacity, the
// tail into a Clone with a buffer of its own, which is then Appended. An Append that does not fit is refused
// as a whole (the parent as it was); one that fits gives what direct emission gives.
func c19AppendBounded(v asmVariant, capacity int, ops []asmOp, split int) string {
	room := 224
	if len(ops) > 8 {
		room = 16384
	}
	for _, op := range ops {
		if strings.HasPrefix(op.name, "SetBase(") {
			return "" // a base set inside a clone is outside what Clone/Append promise (base set before the first emission)
		}
	}
	b := newRealEmitter(v, capacity)
	t := newRealEmitter(v, room)
	for _, op := range ops[:split] {
		tp := applyReal(t, op)
		if bp := applyReal(b, op); (bp != nil) != (tp != nil) {
			return "" // a head call does not fit: that case belongs to the plain histories
		}
	}
	c := b.Clone(make([]byte, room))
	for _, op := range ops[split:] {
		applyReal(t, op)
		applyReal(c, op)
	}
	before := observe(b, asmLabelNames)
	var pn interface{}
	func() {
		defer func() { pn = recover() }()
		b.Append(c)
	}()
	after := observe(b, asmLabelNames)
	if before.n+c.Len() <= capacity {
		if pn != nil {
			return fmt.Sprintf("Append of %d bytes with Len=%d Cap=%d: it fits but was refused (%v)", c.Len(), before.n, capacity, pn)
		}
		if want := observe(t, asmLabelNames); !after.equal(want) {
			return fmt.Sprintf("after an Append that fits (split %d): %v, direct emission gives %v", split, after, want)
		}
		return ""
	}
	if pn == nil {
		return fmt.Sprintf("Append of %d bytes with Len=%d Cap=%d was accepted; now %v", c.Len(), before.n, capacity, after)
	}
	if !after.equal(before) {
		return fmt.Sprintf("Append of %d bytes with Len=%d Cap=%d was refused (%v) but changed the emitter: before %v after %v", c.Len(), before.n, capacity, pn, before, after)
	}
	return ""
}

func hasBigBlock(ops []asmOp) bool {
	for _, op := range ops {
		if op.name == "EmitBytes(300)" {
			return true
		}
	}
	return false
}

func c19Run(h asmHistory) (sig, what string) {
	ops, err := opsByName(h.Ops)
	if err != nil {
		return "bad-case", err.Error()
	}
	if h.Window && h.ViaClone { // marker of an Append-into-bounded-parent case
		if d := c19AppendBounded(h.Variant, h.Capacity, ops, h.Split); d != "" {
			return c19Classify(d), fmt.Sprintf("%+v capacity %d split %d %v: %s", h.Variant, h.Capacity, h.Split, h.Ops, d)
		}
		return "", ""
	}
	if h.Capacity < 0 {
		for split := 0; split <= len(ops); split++ {
			if d := c19DryClone(h.Variant, ops, split); d != "" {
				return c19Classify(d), fmt.Sprintf("%+v %v: %s", h.Variant, h.Ops, d)
			}
		}
	}
	if d := c19History(h.Variant, h.Capacity, ops, h.Window, h.ViaClone); d != "" {
		return c19Classify(d), fmt.Sprintf("%+v capacity %d window=%v via-clone=%v %v: %s", h.Variant, h.Capacity, h.Window, h.ViaClone, h.Ops, d)
	}
	return "", ""
}

func replayC19(raw json.RawMessage) (string, error) {
	var h asmHistory
	if err := json.Unmarshal(raw, &h); err != nil {
		return "", err
	}
	sig, what := c19Run(h)
	if sig == "" {
		return "every call agrees with the capacity model", nil
	}
	return what, fmt.Errorf("%s", sig)
}

func runC19(r *report.Run) {
	thorough := r.Tier == "thorough"
	depth := 4
	if thorough {
		depth = 5
	}
	all := asmVariants()
	variants := []asmVariant{all[5], all[2]} // listing off / base unset; listing on / base $008000
	if thorough {
		variants = variants[:1] // the deep pass on one variant (each case runs two target shapes and a twin)
	}
	var capCases int64
	visit := func(v asmVariant, al []asmOp, idx []int) (string, string, int, *asmHistory) {
		ops := make([]asmOp, len(idx))
		for i, k := range idx {
			ops[i] = al[k]
		}
		// size of the program in a roomy buffer (real emitter)
		re := newRealEmitter(v, 1024)
		for _, op := range ops {
			applyReal(re, op)
		}
		size := re.Len()
		n := 0
		for split := 0; split <= len(ops); split++ {
			n++
			if d := c19DryClone(v, ops, split); d != "" {
				return c19Classify(d), fmt.Sprintf("%+v %v: %s", v, historyNames(al, idx), d), n, &asmHistory{Variant: v, Ops: historyNames(al, idx), Capacity: -1}
			}
		}
		for capacity := size - 2; capacity <= size; capacity++ {
			if capacity < 0 || v != variants[0] {
				continue
			}
			for split := 0; split <= len(ops); split++ {
				n++
				if d := c19AppendBounded(v, capacity, ops, split); d != "" {
					return c19Classify(d), fmt.Sprintf("%+v capacity %d split %d %v: %s", v, capacity, split, historyNames(al, idx), d), n, &asmHistory{Variant: v, Ops: historyNames(al, idx), Capacity: capacity, Split: split, Window: true, ViaClone: true}
				}
			}
		}
		capSet := map[int]bool{}
		if size > 64 {
			// a large program (a big data block): capacities around every call boundary instead of all of them
			re2 := newRealEmitter(v, 1024)
			capSet[-1], capSet[0], capSet[1], capSet[size+1] = true, true, true, true
			for _, op := range ops {
				applyReal(re2, op)
				for d := -3; d <= 1; d++ {
					if b := re2.Len() + d; b >= 0 {
						capSet[b] = true
					}
				}
			}
		}
		for capacity := -1; capacity <= size+1; capacity++ {
			if size > 64 && !capSet[capacity] {
				continue
			}
			// shapes: the target as a whole array (len == cap), as a window of a larger one (len < cap), and
			// the emitter under test being a Clone over the target
			for shape := 0; shape < 3; shape++ {
				if shape > 0 && (capacity < 0 || (!thorough && v != variants[0])) {
					continue // quick tier: the window and via-Clone shapes on the first variant only
				}
				n++
				if d := c19History(v, capacity, ops, shape == 1, shape == 2); d != "" {
					return c19Classify(d), fmt.Sprintf("%+v capacity %d shape %d %v: %s", v, capacity, shape, historyNames(al, idx), d), n, &asmHistory{Variant: v, Ops: historyNames(al, idx), Capacity: capacity, Window: shape == 1, ViaClone: shape == 2}
				}
			}
		}
		return "", "", n, nil
	}
	// SetBase in the middle of a sequence is part of C19's alphabet (and of no other check's: the listings
	// cannot follow a second base): the nil-target emitter must keep reporting the PC of the buffered one
	midBase, _ := asmDynamicOp("SetBase($7e2000)")
	// ... and so is a data block of 300 bytes (tables of a few hundred bytes are ordinary; the other checks'
	// alphabets stop at 33)
	bigBlock, _ := asmDynamicOp("EmitBytes(300)")
	hist, trans, st := asmHistorySearch(depth, variants, visit, r, 0, midBase, bigBlock)
	capCases = st
	// every instruction method of the emitter that takes no label (two operand patterns each) as a symbol:
	// all histories of length <= 2 over the alphabet extended by them (backward literal branches after data,
	// long-operand instructions at the capacity edge, ...)
	{
		mo := asmMethodOps()
		hm, tm, sm := asmHistorySearch(2, variants, visit, r, 0, mo...)
		hist, trans, capCases = hist+hm, trans+tm, capCases+sm
		r.Set("method_symbols", len(mo))
	}
	// long programs: capacities around a few instruction boundaries spread over the program, every shape
	for _, v := range variants {
		for salt, n := range []int{120, 300} {
			ops := asmLongProgram(n, salt)
			re := newRealEmitter(v, 16384)
			var marks []int
			for i, op := range ops {
				applyReal(re, op)
				if i == n/4 || i == n/2 || i == n-2 || i == n-1 {
					marks = append(marks, re.Len())
				}
			}
			caps := []int{-1, 0}
			for _, m := range marks {
				for d := -3; d <= 1; d++ {
					if m+d >= 0 {
						caps = append(caps, m+d)
					}
				}
			}
			for _, capacity := range caps {
				for shape := 0; shape < 3; shape++ {
					if shape > 0 && capacity < 0 {
						continue
					}
					capCases++
					if d := c19History(v, capacity, ops, shape == 1, shape == 2); d != "" {
						r.ViolationSized(c19Classify(d), fmt.Sprintf("%+v long program (%d calls, salt %d) capacity %d shape %d: %s", v, n, salt, capacity, shape, d), asmHistory{Variant: v, Ops: opNames(ops), Capacity: capacity, Window: shape == 1, ViaClone: shape == 2}, n)
					}
				}
			}
			for _, split := range []int{0, n / 2, n} {
				capCases++
				if d := c19DryClone(v, ops, split); d != "" {
					r.ViolationSized(c19Classify(d), fmt.Sprintf("%+v long program (%d calls): %s", v, n, d), asmHistory{Variant: v, Ops: opNames(ops), Capacity: -1}, n)
				}
			}
		}
	}
	if thorough {
		// all ten constructor variants one level shallower (the deep pass above runs on one of them:
		// depth 5 on all ten is 2.7*10^9 (history, capacity) cases, well over an hour on 16 cores)
		h2, t2, s2 := asmHistorySearch(depth-1, all, visit, r, 0, midBase, bigBlock)
		hist, trans, capCases = hist+h2, trans+t2, capCases+s2
	}
	r.Set("states", capCases)
	r.Set("transitions", trans)
	r.Set("traces_validated_against_impl", capCases)
	r.Set("evaluations", capCases)
	r.Set("distinct_nontrivial", capCases-hist)
	r.Set("histories", hist)
	r.Set("history_x_capacity_cases", capCases)
	r.Set("bounds", map[string]interface{}{"history_depth": depth, "alphabet": len(asmAlphabet()) + 2, "constructor_variants": len(variants), "thorough_second_pass": "all 10 constructor variants at depth 4", "capacities": "every capacity from 0 to program size + 1, each as a whole array (len == cap), as a window of a larger canary-filled array (len < cap) and with the emitter under test being a Clone over the target, plus the nil-target (dry-run) emitter"})
	r.Set("rule", "every call sequence up to the depth x every buffer capacity from 0 to the program's size + 1 and the nil-target emitter: each call runs on a fresh real Emitter and on a twin real Emitter with ample room that receives exactly the accepted calls (the twin tells how many bytes a call needs; nothing is predicted from a model), the target buffer given once as a whole array and once as a window of a larger array whose bytes outside the window must stay untouched; a call that does not fit must panic and leave Bytes/Len/PC/Flags/labels unchanged, the history continues after a refusal, a call that fits must leave the emitter exactly like the twin, Finalize after the history must agree with the twin's, and an Append of a clone (own buffer) into a parent that is 0-2 bytes short must be refused leaving the parent as it was; the nil-target emitter must report the same PC, labels and flags after every call, also when the tail of the history (every split) goes through Clone(nil) and Append; non-trivial = capacity below the program size or nil target (at least one call differs from the roomy run)")
	r.Sample(asmHistory{Variant: variants[0], Ops: []string{"LDA_abs($1234)", "JSL($123456)", "NOP"}, Capacity: 5})
	r.Sample(asmHistory{Variant: all[2], Ops: []string{"SEP(#$20)", "LDA_imm8_b($7F)", "EmitBytes(17)"}, Capacity: -1})
	r.Assume("listing lines are not part of the property's list and are not compared here")
}
