package checks

import (
	"fmt"

	"github.com/alttpo/snes/asm"

	"verif/internal/ref65816"
)

// Whole straight-line programs with label references, assembled the way routines with alternatives are:
// a head with early-outs to a common exit label, then the next stretch assembled in a Clone -- alone, or
// next to a sibling Clone of the same parent that receives other code and is dropped --, Appended, then a
// tail with width switches and immediates, the exit label, Finalize. No branch is taken (Z stays set), so
// the CPU must fetch an opcode at every instruction start the assembler reported and nowhere else.
type c07ProgCase struct {
	ProgEarly  int      `json:"prog_early_outs"`
	Kept       []string `json:"kept"`
	Decoy      []string `json:"decoy"` // nil: no sibling clone
	DecoyFirst bool     `json:"decoy_first"`
	Direct     bool     `json:"direct"` // no clones at all: Kept is emitted on the parent
	// Nested > 0: the first Nested-1 calls of Kept go into the clone, the next into a clone OF THE CLONE that is
	// Appended to it at once, the rest into the clone again
	Nested int `json:"nested,omitempty"`
}

func c07ProgEmit(e *asm.Emitter, starts *[]uint32, ops []string) {
	for _, op := range ops {
		if starts != nil {
			*starts = append(*starts, e.PC())
		}
		switch op {
		case "BNE":
			e.BNE("exit")
		case "BNEtop":
			e.BNE("top")
		case "JMP":
			// never reached by a taken transfer: a not-taken BNE stands in front of nothing here; JMP is only
			// used in decoys (it is dropped with them)
			e.JMP_abs("exit")
		default:
			e.NOP()
		}
	}
}

func c07ProgRun(x *cpuCtx, c c07ProgCase) (sig, what string) {
	const base = 0x008000
	desc := func() string { return fmt.Sprintf("%+v", c) }
	var starts []uint32
	var a *asm.Emitter
	var end uint32
	var ferr error
	pn := func() (pn interface{}) {
		defer func() { pn = recover() }()
		a = asm.NewEmitter(make([]byte, 0x200), false)
		a.SetBase(base)
		a.AssumeSEP(0x30)
		a.Label("top")
		ins := func(f func()) { starts = append(starts, a.PC()); f() }
		ins(func() { a.LDA_imm8_b(0x00) })
		for i := 0; i < c.ProgEarly; i++ {
			ins(func() { a.BNE("exit") })
		}
		if c.Direct {
			c07ProgEmit(a, &starts, c.Kept)
		} else {
			var kept, decoy *asm.Emitter
			var keptStarts []uint32
			mk := func() *asm.Emitter { return a.Clone(make([]byte, 0x40)) }
			emitKept := func(kept *asm.Emitter, st *[]uint32) {
				if c.Nested <= 0 || c.Nested > len(c.Kept) {
					c07ProgEmit(kept, st, c.Kept)
					return
				}
				c07ProgEmit(kept, st, c.Kept[:c.Nested-1])
				inner := kept.Clone(make([]byte, 0x40))
				c07ProgEmit(inner, st, c.Kept[c.Nested-1:c.Nested])
				kept.Append(inner)
				c07ProgEmit(kept, st, c.Kept[c.Nested:])
			}
			if c.Decoy != nil && c.DecoyFirst {
				decoy = mk()
				kept = mk()
				c07ProgEmit(decoy, nil, c.Decoy)
				emitKept(kept, &keptStarts)
			} else {
				kept = mk()
				if c.Decoy != nil {
					decoy = mk()
				}
				emitKept(kept, &keptStarts)
				if decoy != nil {
					c07ProgEmit(decoy, nil, c.Decoy)
				}
			}
			a.Append(kept)
			starts = append(starts, keptStarts...)
		}
		ins(func() { a.REP(0x20) })
		ins(func() { a.LDA_imm16_w(0x0000) })
		ins(func() { a.SEP(0x20) })
		ins(func() { a.LDA_imm8_b(0x00) })
		ins(func() { a.NOP() })
		a.Label("exit")
		ins(func() { a.REP(0x30) })
		end = a.PC()
		ferr = a.Finalize()
		return nil
	}()
	if pn != nil || ferr != nil {
		return "unexplained:program:not-accepted", fmt.Sprintf("a legal program was not accepted (panic %v, Finalize %v) | %s", pn, ferr, desc())
	}
	code := append([]byte(nil), a.Bytes()...)
	for i := 0; i < 2; i++ {
		m := x.ms[i]
		mem := m.Mem()
		mem.Seed = 0x77
		mem.Ov = mem.Ov[:0]
		mem.ClearLog()
		for k, b := range code {
			mem.Set(base+uint32(k), b)
		}
		for k := len(code); k < len(code)+4; k++ {
			mem.Set(base+uint32(k), 0xEA)
		}
		st := ref65816.State{K: 0x00, PC: base & 0xFFFF, P: 0x30, S: 0x01FF, D: 0x0000, DBR: 0x7E, C: 0x0000, X: 0x10, Y: 0x20}
		m.Load(mkRaw(st, 0, 0))
		for k, want := range starts {
			cur := m.Save()
			if got := uint32(cur.RK)<<16 | uint32(cur.PC); got != want {
				return "unexplained:program:fetch-address", fmt.Sprintf("instruction #%d: %s fetches its opcode at $%06x, the assembler reported an instruction start at $%06x (bytes % x) | %s", k, m.Name(), got, want, code, desc())
			}
			if _, _, spn := m.Step(); spn != nil {
				return "unexplained:program:cpu-panics", fmt.Sprintf("instruction #%d: %s panicked: %v | %s", k, m.Name(), spn, desc())
			}
		}
		after := m.Save()
		if got := uint32(after.RK)<<16 | uint32(after.PC); got != end {
			return "unexplained:program:boundary", fmt.Sprintf("after the last instruction %s is at $%06x, the assembler at $%06x (bytes % x) | %s", m.Name(), got, end, code, desc())
		}
		if a.IsM16bit() != (after.P&0x20 == 0) || a.IsX16bit() != (after.P&0x10 == 0) {
			return "unexplained:program:relation-broken", fmt.Sprintf("tracker says m16=%v x16=%v, %s has m=%d x=%d | %s", a.IsM16bit(), a.IsX16bit(), m.Name(), after.P>>5&1, after.P>>4&1, desc())
		}
	}
	return "", ""
}

func c07ProgCases() (out []c07ProgCase) {
	var seqs [][]string
	var gen func(cur []string, alphabet []string, max int, into *[][]string)
	gen = func(cur []string, alphabet []string, max int, into *[][]string) {
		*into = append(*into, append([]string(nil), cur...))
		if len(cur) == max {
			return
		}
		for _, s := range alphabet {
			gen(append(cur, s), alphabet, max, into)
		}
	}
	gen(nil, []string{"BNE", "NOP", "BNEtop"}, 3, &seqs)
	var decoys [][]string
	gen(nil, []string{"BNE", "NOP", "JMP"}, 3, &decoys)
	for early := 0; early <= 8; early++ {
		for _, k := range seqs {
			out = append(out, c07ProgCase{ProgEarly: early, Kept: k, Direct: true})
			out = append(out, c07ProgCase{ProgEarly: early, Kept: k})
			for n := 1; n <= len(k); n++ {
				out = append(out, c07ProgCase{ProgEarly: early, Kept: k, Nested: n})
			}
			for _, d := range decoys {
				for _, df := range []bool{false, true} {
					out = append(out, c07ProgCase{ProgEarly: early, Kept: k, Decoy: append([]string{}, d...), DecoyFirst: df})
				}
			}
		}
	}
	return
}
