package checks

import (
	"encoding/json"
	"fmt"
	"reflect"
	"sort"

	"github.com/alttpo/snes/asm"

	"verif/internal/cpuh"
	"verif/internal/ref65816"
	"verif/internal/report"
)

func init() {
	Registry["C07"] = Check{GC: 25, Level: "model_checking", Run: runC07, Replay: replayC07}
}

// one transition of the joint assembler/CPU state machine
type c07Trans struct {
	Tracked byte   `json:"tracked_p"` // tracked flags before the call (CPU m/x mirror bits 5/4)
	Method  string `json:"method"`
	Mask    int    `json:"mask"` // REP/SEP/AssumeREP/AssumeSEP mask, else -1
	// Via: 0 the call is made on the emitter itself; 1 on a Clone that is then Appended (the tracked widths
	// travel with it); 2 on a Clone whose Append is refused for lack of room (nothing may travel); 3 like 1
	// with the clone's target being the free tail of the parent's own buffer
	Via int `json:"via,omitempty"`
}

const c07Base = 0x008000

var c07Excluded = map[string]bool{"PLP": true, "RTI": true, "RTS": true, "RTL": true}

// c07Apply performs the transition on a fresh emitter and both CPUs; returns the tracked flags
// after it (next joint state) or a violation.
func c07Apply(x *cpuCtx, spec map[string]c03Spec, t c07Trans) (next byte, sig, what string) {
	buf := make([]byte, 16)
	if t.Via == 2 || t.Via == 4 {
		buf = buf[:0] // no room (a zero-length window of a 16-byte array): the Append / the call must be refused
	}
	par := asm.NewEmitter(buf, false)
	par.SetBase(c07Base)
	par.AssumeSEP(asm.Flags(t.Tracked))
	if byte(par.Flags()) != t.Tracked {
		return 0, "unexplained:assume-sep", fmt.Sprintf("AssumeSEP(%02x) on a fresh emitter gives Flags()=%02x", t.Tracked, byte(par.Flags()))
	}
	e := par
	if t.Via == 3 {
		e = par.Clone(buf[par.Len():]) // the clone emits into the free tail of the parent's own buffer
	} else if t.Via != 0 && t.Via != 4 {
		e = par.Clone(make([]byte, 16))
	}
	cpuP := t.Tracked & 0x30 // the CPU's m and x mirror the assumed widths (relation R)
	desc := func() string {
		return fmt.Sprintf("tracked P=%02x, %s mask=%d via=%d", t.Tracked, t.Method, t.Mask, t.Via)
	}
	// join: hand the clone back to the parent (Via 1/2); afterwards e is the parent
	join := func() (sig, what string, refused bool) {
		if t.Via == 0 {
			return
		}
		n := e.Len()
		var pn interface{}
		func() {
			defer func() { pn = recover() }()
			par.Append(e)
		}()
		e = par
		switch {
		case (t.Via == 1 || t.Via == 3) && pn != nil:
			return "unexplained:append-refused:" + t.Method, fmt.Sprintf("%s: Append of %d bytes into a 16-byte buffer panicked: %v", desc(), n, pn), false
		case t.Via == 2 && n > 0 && pn == nil:
			return "unexplained:append-without-room:" + t.Method, fmt.Sprintf("%s: Append of %d bytes into a full buffer was accepted", desc(), n), false
		case t.Via == 2 && n > 0:
			if byte(par.Flags()) != t.Tracked || par.Len() != 0 || par.PC() != c07Base {
				return "unexplained:refused-append-changed-tracker:" + t.Method, fmt.Sprintf("%s: the refused Append left the emitter with Flags()=%02x Len=%d PC=$%06x; no code was added, the CPU still has m=%d x=%d", desc(), byte(par.Flags()), par.Len(), par.PC(), t.Tracked>>5&1, t.Tracked>>4&1), false
			}
			return "", "", true
		}
		return
	}
	// environment actions: the caller asserts the CPU state changes, no code is emitted
	if t.Method == "AssumeREP" || t.Method == "AssumeSEP" {
		if t.Method == "AssumeREP" {
			e.AssumeREP(asm.Flags(t.Mask))
			cpuP &^= byte(t.Mask) & 0x30
		} else {
			e.AssumeSEP(asm.Flags(t.Mask))
			cpuP |= byte(t.Mask) & 0x30
		}
		if sig, what, _ := join(); sig != "" {
			return 0, sig, what
		}
		if e.Len() != 0 || e.PC() != c07Base {
			return 0, "unexplained:assume-emits", desc() + ": an Assume call emitted code or moved PC"
		}
		if e.IsM16bit() != (cpuP&0x20 == 0) || e.IsX16bit() != (cpuP&0x10 == 0) {
			return 0, "unexplained:relation-broken:" + t.Method, fmt.Sprintf("%s: tracker says m16=%v x16=%v, CPU has m=%d x=%d", desc(), e.IsM16bit(), e.IsX16bit(), cpuP>>5&1, cpuP>>4&1)
		}
		return byte(e.Flags()), "", ""
	}
	sp := spec[t.Method]
	// operand representative; control transfers target the next instruction
	op, _ := opcodeFor(sp.mn, sp.mode)
	ilen := ref65816.Length(op, t.Tracked&0x20 != 0, t.Tracked&0x10 != 0)
	nextAddr := uint32(c07Base + ilen)
	var arg uint32
	switch {
	case t.Mask >= 0:
		arg = uint32(t.Mask)
	case sp.mn == "JSR" || (sp.mn == "JMP" && sp.mode == ref65816.Abs):
		arg = nextAddr & 0xFFFF
	case sp.mn == "JSL" || sp.mn == "JML":
		arg = nextAddr
	case sp.mn == "JMP" && sp.mode == ref65816.Iab:
		arg = 0x0040 // pointer at 00:0040, planted below
	case sp.mode == ref65816.Rel:
		arg = 0
	case sp.mode == ref65816.Blk:
		arg = 0x7F7E
	default:
		arg = 0x563412
	}
	before := observe(e, nil)
	var pn interface{}
	var err error
	if sp.label {
		func() {
			defer func() { pn = recover() }()
			reflect.ValueOf(e).MethodByName(t.Method).Call([]reflect.Value{reflect.ValueOf("next")})
			e.Label("next")
			err = e.Finalize()
		}()
	} else {
		b, berr := c03Bind(e, t.Method)
		if berr != nil {
			return 0, "oracle-broken", berr.Error()
		}
		_, pn, err = c03Call(b, t.Method, arg)
	}
	if err != nil {
		return 0, "unexplained:finalize", desc() + ": " + err.Error()
	}
	legal := guardOK(sp.guard, t.Tracked)
	if !legal {
		if pn == nil {
			return 0, "unexplained:width-mismatch-accepted:" + t.Method, desc() + ": immediate operand size disagrees with the tracked width but was emitted"
		}
		if after := observe(e, nil); !after.equal(before) {
			return 0, "unexplained:refused-call-changed-state:" + t.Method, fmt.Sprintf("%s: refused call changed the emitter: %v -> %v", desc(), before, after)
		}
		return t.Tracked, "", ""
	}
	if t.Via == 4 {
		// made directly on an emitter without room: an instruction cannot be emitted; refused or not, no
		// code exists, so the tracked widths must still be those the CPU has
		if sp.label || t.Method == "AssumeREP" || t.Method == "AssumeSEP" {
			return t.Tracked, "", ""
		}
		if e.Len() != 0 {
			return 0, "unexplained:emitted-without-room:" + t.Method, fmt.Sprintf("%s: Len()=%d in a zero-length target", desc(), e.Len())
		}
		if byte(e.Flags()) != t.Tracked {
			return 0, "unexplained:refused-call-changed-tracker:" + t.Method, fmt.Sprintf("%s: the call had no room (Len stays 0) but the tracked flags went from %02x to %02x; the CPU still has m=%d x=%d", desc(), t.Tracked, byte(e.Flags()), t.Tracked>>5&1, t.Tracked>>4&1)
		}
		return t.Tracked, "", ""
	}
	if pn != nil {
		// a call the width rules allow was refused: nothing was emitted, so the relation between the emitted
		// code and the CPU is not touched (whether the guard is the right one is C03's question)
		return t.Tracked, "", ""
	}
	if sig, what, refused := join(); sig != "" {
		return 0, sig, what
	} else if refused {
		return t.Tracked, "", "" // nothing was emitted and the tracker is unchanged: same joint state
	}
	code := append([]byte(nil), e.Bytes()...)
	endPC := e.PC()
	for i := 0; i < 2; i++ {
		m := x.ms[i]
		mem := m.Mem()
		mem.Seed = 0x77
		mem.Ov = mem.Ov[:0]
		mem.ClearLog()
		for k, b := range code {
			mem.Set(c07Base+uint32(k), b)
		}
		for k := len(code); k < len(code)+4; k++ {
			mem.Set(c07Base+uint32(k), 0xEA)
		}
		mem.Set(0x0040, byte(nextAddr))
		mem.Set(0x0041, byte(nextAddr>>8))
		st := ref65816.State{K: 0x00, PC: c07Base & 0xFFFF, P: cpuP, S: 0x01FF, D: 0x0000, DBR: 0x7E, C: 0x0000, X: 0x10, Y: 0x20}
		// transitions made through a clone start the CPU from a "dirty" object: made by InitFrom, no-op
		// OnPC/OnWDM observers installed, junk in the non-architectural fields (none of which may move an
		// instruction boundary)
		m.Load(mkRaw(st, t.Via&1, 0))
		_, _, spn := m.Step()
		if spn != nil {
			return 0, "unexplained:cpu-panics:" + t.Method, fmt.Sprintf("%s: %s panicked: %v", desc(), m.Name(), spn)
		}
		if len(mem.Reads) == 0 || mem.Reads[0] != c07Base {
			return 0, "unexplained:fetch-address:" + t.Method, fmt.Sprintf("%s: %s fetched its opcode at %v, the assembler reported the instruction start $%06x", desc(), m.Name(), mem.Reads, c07Base)
		}
		after := m.Save()
		got := uint32(after.RK)<<16 | uint32(after.PC)
		if got != endPC {
			return 0, "unexplained:boundary:" + t.Method, fmt.Sprintf("%s: after the instruction %s is at $%06x, the assembler's next instruction starts at $%06x (bytes % x)", desc(), m.Name(), got, endPC, code)
		}
		if e.IsM16bit() != (after.P&0x20 == 0) || e.IsX16bit() != (after.P&0x10 == 0) {
			return 0, "unexplained:relation-broken:" + t.Method, fmt.Sprintf("%s: tracker says m16=%v x16=%v, %s has m=%d x=%d", desc(), e.IsM16bit(), e.IsX16bit(), m.Name(), after.P>>5&1, after.P>>4&1)
		}
	}
	return byte(e.Flags()), "", ""
}

func c07Transitions(methods []string) []c07Trans {
	var ts []c07Trans
	for _, n := range methods {
		if c07Excluded[n] {
			continue
		}
		if n == "REP" || n == "SEP" {
			for m := 0; m < 256; m++ {
				ts = append(ts, c07Trans{Method: n, Mask: m})
			}
			continue
		}
		ts = append(ts, c07Trans{Method: n, Mask: -1})
	}
	for _, n := range []string{"AssumeREP", "AssumeSEP"} {
		for m := 0; m < 256; m++ {
			ts = append(ts, c07Trans{Method: n, Mask: m})
		}
	}
	direct := len(ts)
	for via := 1; via <= 4; via++ {
		for _, t := range ts[:direct] {
			if (via == 2 || via == 4) && (t.Method == "AssumeREP" || t.Method == "AssumeSEP") {
				continue // nothing is emitted: an empty Append fits anywhere
			}
			t.Via = via
			ts = append(ts, t)
		}
	}
	return ts
}

func c07Methods() (methods []string, spec map[string]c03Spec) {
	spec = c03Classify()
	t := reflect.TypeOf(asm.NewEmitter(nil, false))
	for i := 0; i < t.NumMethod(); i++ {
		n := t.Method(i).Name
		if _, ok := spec[n]; ok {
			methods = append(methods, n)
		}
	}
	sort.Strings(methods)
	return
}

func replayC07(raw json.RawMessage) (string, error) {
	var pc c07ProgCase
	if json.Unmarshal(raw, &pc) == nil && (pc.Kept != nil || pc.Decoy != nil || pc.Direct || pc.ProgEarly > 0 || pc.Nested > 0) {
		sig, what := c07ProgRun(newCPUCtx(), pc)
		if sig == "" {
			return "the CPU fetches exactly at the reported instruction starts", nil
		}
		return what, fmt.Errorf("%s", sig)
	}
	var t c07Trans
	if err := json.Unmarshal(raw, &t); err != nil {
		return "", err
	}
	_, spec := c07Methods()
	_, sig, what := c07Apply(newCPUCtx(), spec, t)
	if sig == "" {
		return "the relation between assembler and CPU holds across this transition", nil
	}
	return what, fmt.Errorf("%s", sig)
}

func runC07(r *report.Run) {
	methods, spec := c07Methods()
	trans := c07Transitions(methods)
	x := newCPUCtx()
	seen := map[byte]bool{}
	var frontier []byte
	for _, p := range []byte{0x00, 0x10, 0x20, 0x30} {
		seen[p] = true
		frontier = append(frontier, p)
	}
	var nTrans, refused int64
	depth := 0
	for len(frontier) > 0 {
		var next []byte
		for _, s := range frontier {
			for _, t := range trans {
				t.Tracked = s
				nTrans++
				n, sig, what := c07Apply(x, spec, t)
				if sig != "" {
					r.Violation(sig, what, t)
					continue
				}
				if sp, ok := spec[t.Method]; ok && !guardOK(sp.guard, s) {
					refused++
				}
				if !seen[n] {
					seen[n] = true
					next = append(next, n)
				}
			}
		}
		sort.Slice(next, func(i, j int) bool { return next[i] < next[j] })
		frontier = next
		depth++
	}
	progs := c07ProgCases()
	for _, pc := range progs {
		if sig, what := c07ProgRun(x, pc); sig != "" {
			r.ViolationSized(sig, what, pc, pc.ProgEarly+len(pc.Kept)+len(pc.Decoy))
		}
	}
	nTrans += int64(len(progs))
	r.Set("whole_programs_with_label_references", len(progs))
	r.Set("states", int64(len(seen)))
	r.Set("transitions", nTrans)
	r.Set("traces_validated_against_impl", nTrans)
	r.Set("evaluations", nTrans)
	r.Set("distinct_nontrivial", nTrans-refused)
	r.Set("refused_width_mismatches", refused)
	r.Set("bfs_levels", depth)
	r.Set("transition_alphabet", map[string]interface{}{"instruction_methods": len(methods) - len(c07Excluded), "excluded": []string{"PLP", "RTI", "RTS", "RTL"}, "REP/SEP masks": 256, "AssumeREP/AssumeSEP masks": 256, "per_state": len(trans)})
	r.Set("fixpoint", true)
	r.Set("rule", "BFS to a fixpoint over the joint state (tracked flags byte; CPU m and x, which relation R ties to it) from the four initial width assumptions; every transition really calls the Emitter method on a fresh emitter -- directly, on a Clone that is Appended back (the tracked widths travel with the code; the clone's target a buffer of its own or the free tail of the parent's), and on a Clone whose Append is refused for lack of room (nothing may travel) -- (every instruction method with one operand representative, control transfers aimed at the next instruction, label branches finalized to displacement 0, REP/SEP and AssumeREP/AssumeSEP with all 256 masks) and then really Steps both CPUs over the emitted bytes: the first bus read must be the opcode fetch at the address the assembler reported, the CPU must end exactly at the assembler's next instruction start and its m/x must equal the tracked widths; width-guarded immediates must be refused exactly on mismatch without touching the emitter. By induction on the length this covers every straight-line program over the alphabet. Whole programs with label references: a head with 0..8 early-outs to a common exit label, every sequence up to 3 over {BNE exit, NOP, BNE top} emitted directly, through a Clone (also with one of the calls going through a clone of the clone), or through a Clone next to a sibling Clone (every sequence up to 3 over {BNE exit, NOP, JMP exit}, created first or second) that is dropped, a tail with width switches, Finalize; both CPUs are stepped from the base address and must stand at every reported instruction start (no branch is taken)")
	r.Sample(c07Trans{0x20, "LDA_imm8_b", -1, 0})
	r.Sample(c07Trans{0x30, "REP", 0x31, 1})
	r.Assume("operand values do not influence instruction length (C03 covers every operand value); one representative per method")
	_ = cpuh.Cell{}
}
