package checks

import (
	"bytes"
	"fmt"
	"sort"
	"strconv"
	"strings"

	"github.com/alttpo/snes/asm"

	"verif/internal/ref65816"
)

// ---- reference model of an Emitter: a list of items with PC arithmetic, a label table,
// reference lists, tracked P and a capacity (DESIGN §3.6).

type asmItemKind int

const (
	itInstr asmItemKind = iota
	itData
	itLabel
	itComment
)

type asmItem struct {
	kind  asmItemKind
	addr  uint32
	bytes []byte
	text  string // label name / comment text
	ref   int    // index into refs for label-referencing instructions, else -1
}

type asmRef struct {
	s8      bool
	label   string
	operand uint32 // absolute address of the first operand byte
}

type asmModel struct {
	base    uint32
	baseSet bool
	baseAt  int // number of items issued before SetBase: the base directive is owed to the first line after them
	pc      uint32
	bytes   []byte
	items   []asmItem
	labels  map[string]uint32
	refs    []asmRef
	p       byte
	cap     int // -1 = dry run (no target buffer): nothing is stored, nothing is refused
}

func newAsmModel(cap int) *asmModel {
	return &asmModel{labels: map[string]uint32{}, cap: cap}
}

func (m *asmModel) clone() *asmModel {
	c := *m
	c.bytes = append([]byte(nil), m.bytes...)
	c.items = append([]asmItem(nil), m.items...)
	c.refs = append([]asmRef(nil), m.refs...)
	c.labels = map[string]uint32{}
	for k, v := range m.labels {
		c.labels[k] = v
	}
	return &c
}

func (m *asmModel) setBase(a uint32) { m.base, m.pc, m.baseSet, m.baseAt = a, a, true, len(m.items) }
func (m *asmModel) m16() bool        { return m.p&0x20 == 0 }
func (m *asmModel) x16() bool        { return m.p&0x10 == 0 }
func (m *asmModel) fits(n int) bool  { return m.cap < 0 || len(m.bytes)+n <= m.cap }

// emit appends instruction or data bytes; returns false (refused, nothing changed) if they do not fit.
func (m *asmModel) emit(kind asmItemKind, b []byte, ref int) bool {
	if !m.fits(len(b)) {
		return false
	}
	m.items = append(m.items, asmItem{kind: kind, addr: m.pc, bytes: append([]byte(nil), b...), ref: ref})
	if m.cap >= 0 {
		m.bytes = append(m.bytes, b...)
	}
	m.pc += uint32(len(b))
	return true
}

func (m *asmModel) emitRef(op byte, s8 bool, label string) bool {
	b := []byte{op, 0xFF}
	if !s8 {
		b = []byte{op, 0xFF, 0xFF}
	}
	if !m.fits(len(b)) {
		return false
	}
	m.refs = append(m.refs, asmRef{s8, label, m.pc + 1})
	return m.emit(itInstr, b, len(m.refs)-1)
}

func (m *asmModel) label(name string) bool {
	if _, dup := m.labels[name]; dup {
		return false
	}
	m.labels[name] = m.pc
	m.items = append(m.items, asmItem{kind: itLabel, addr: m.pc, text: name, ref: -1})
	return true
}

func (m *asmModel) comment(s string) {
	m.items = append(m.items, asmItem{kind: itComment, addr: m.pc, text: s, ref: -1})
}

// finalize: which references are unresolved / out of range, and the patched bytes on success.
type asmFinal struct {
	ok         bool
	unresolved []asmRef
	outOfRange []asmRef
	patched    []byte       // bytes with every resolvable in-range reference patched
	operandPos map[int]bool // offsets (into bytes) of operand bytes of label references
	resolved   map[int]byte // offset -> value it holds once resolved
}

func (m *asmModel) finalize() asmFinal {
	f := asmFinal{ok: true, patched: append([]byte(nil), m.bytes...), operandPos: map[int]bool{}, resolved: map[int]byte{}}
	for _, r := range m.refs {
		off := int(r.operand - m.base)
		f.operandPos[off] = true
		if !r.s8 {
			f.operandPos[off+1] = true
		}
		addr, ok := m.labels[r.label]
		if !ok {
			f.ok = false
			f.unresolved = append(f.unresolved, r)
			continue
		}
		if r.s8 {
			d := int(addr) - int(r.operand+1)
			if d > 127 || d < -128 {
				f.ok = false
				f.outOfRange = append(f.outOfRange, r)
				continue
			}
			f.patched[off] = byte(int8(d))
			f.resolved[off] = byte(int8(d))
		} else {
			f.patched[off], f.patched[off+1] = byte(addr), byte(addr>>8)
			f.resolved[off], f.resolved[off+1] = byte(addr), byte(addr>>8)
		}
	}
	return f
}

// ---- operations applied to a real emitter and to the model

type asmOp struct {
	name string
	// real applies the call to the real emitter (may panic)
	real func(e *asm.Emitter)
	// model applies it to the model and says whether the call must be refused (panic, no change)
	model func(m *asmModel) (refused bool)
	// static description of the call, used to record what the REAL emitter did (observeStep):
	kind     asmItemKind
	text     string // label name / comment text
	refLabel string // label referenced by a branch or absolute jump ("" = none)
	refS8    bool   // the reference is an 8-bit relative one
}

// emitBytesAndScribble: the data slice is the caller's; after the call it is overwritten (a reused scratch
// buffer): what was emitted and what the listings show must not change with it.
func emitBytesAndScribble(e *asm.Emitter, d []byte) {
	defer func() {
		for i := range d {
			d[i] = 0xEE
		}
	}()
	e.EmitBytes(d)
}

func dataBlock(n int) []byte {
	b := make([]byte, n)
	for i := range b {
		b[i] = byte(0xA0 + i*7)
	}
	return b
}

var longComment = strings.Repeat("long comment text ", 12)[:200]

func asmAlphabet() []asmOp {
	instr := func(name string, real func(e *asm.Emitter), b ...byte) asmOp {
		return asmOp{name: name, real: real, model: func(m *asmModel) bool { return !m.emit(itInstr, b, -1) }, kind: itInstr}
	}
	ops := []asmOp{
		instr("NOP", func(e *asm.Emitter) { e.NOP() }, 0xEA),
		instr("LDA_dp($12)", func(e *asm.Emitter) { e.LDA_dp(0x12) }, 0xA5, 0x12),
		instr("LDA_abs($1234)", func(e *asm.Emitter) { e.LDA_abs(0x1234) }, 0xAD, 0x34, 0x12),
		instr("JSL($123456)", func(e *asm.Emitter) { e.JSL(0x123456) }, 0x22, 0x56, 0x34, 0x12),
		{name: "SEP(#$20)", real: func(e *asm.Emitter) { e.SEP(0x20) }, model: func(m *asmModel) bool {
			if !m.fits(2) {
				return true
			}
			m.p |= 0x20
			m.emit(itInstr, []byte{0xE2, 0x20}, -1)
			return false
		}},
		{name: "REP(#$20)", real: func(e *asm.Emitter) { e.REP(0x20) }, model: func(m *asmModel) bool {
			if !m.fits(2) {
				return true
			}
			m.p &^= 0x20
			m.emit(itInstr, []byte{0xC2, 0x20}, -1)
			return false
		}},
		{name: "LDA_imm8_b($7F)", real: func(e *asm.Emitter) { e.LDA_imm8_b(0x7F) }, model: func(m *asmModel) bool {
			if m.m16() {
				return true
			}
			return !m.emit(itInstr, []byte{0xA9, 0x7F}, -1)
		}},
		{name: "LDA_imm16_w($1234)", real: func(e *asm.Emitter) { e.LDA_imm16_w(0x1234) }, model: func(m *asmModel) bool {
			if !m.m16() {
				return true
			}
			return !m.emit(itInstr, []byte{0xA9, 0x34, 0x12}, -1)
		}},
	}
	for _, sym := range []string{"a", "b"} {
		sym, l := sym, asmLabelName(sym)
		ops = append(ops,
			asmOp{name: "BNE(" + sym + ")", real: func(e *asm.Emitter) { e.BNE(l) }, model: func(m *asmModel) bool { return !m.emitRef(0xD0, true, l) }, refLabel: l, refS8: true},
			asmOp{name: "BRA(" + sym + ")", real: func(e *asm.Emitter) { e.BRA(l) }, model: func(m *asmModel) bool { return !m.emitRef(0x80, true, l) }, refLabel: l, refS8: true},
			asmOp{name: "JMP_abs(" + sym + ")", real: func(e *asm.Emitter) { e.JMP_abs(l) }, model: func(m *asmModel) bool { return !m.emitRef(0x4C, false, l) }, refLabel: l},
		)
	}
	for _, sym := range []string{"a", "b"} {
		sym, l := sym, asmLabelName(sym)
		ops = append(ops, asmOp{name: "Label(" + sym + ")", real: func(e *asm.Emitter) { e.Label(l) }, model: func(m *asmModel) bool { return !m.label(l) }, kind: itLabel, text: l})
	}
	for _, n := range []int{0, 1, 15, 16, 17, 33} {
		n := n
		ops = append(ops, asmOp{name: fmt.Sprintf("EmitBytes(%d)", n), real: func(e *asm.Emitter) { emitBytesAndScribble(e, dataBlock(n)) },
			model: func(m *asmModel) bool { return !m.emit(itData, dataBlock(n), -1) }, kind: itData})
	}
	for _, c := range []string{"", "short", longComment} {
		c := c
		nm := fmt.Sprintf("Comment(%d chars)", len(c))
		ops = append(ops, asmOp{name: nm, real: func(e *asm.Emitter) { e.Comment(c) }, model: func(m *asmModel) bool { m.comment(c); return false }, kind: itComment, text: c})
	}
	return ops
}

type asmVariant struct {
	Listing bool   `json:"listing"`
	BaseSet bool   `json:"base_set"`
	Base    uint32 `json:"base"`
	// Pre: what the caller did BEFORE SetBase: 0 nothing, 1 Comment("pre"), 2 Label("zz_pre").
	// (SetBase itself is only meaningful before the first emitted byte: listings locate a line's
	// bytes at address-base with the one base the emitter remembers.)
	Pre int `json:"pre,omitempty"`
}

const asmPreLabel = "zz_pre"

// asmVariantsPre: annotations issued before SetBase (listing on).
func asmVariantsPre() []asmVariant {
	return []asmVariant{{true, true, 0x008000, 1}, {true, true, 0x008000, 2}, {true, true, 0x7E2000, 1}}
}

func asmVariants() []asmVariant {
	var v []asmVariant
	for _, l := range []bool{true, false} {
		v = append(v, asmVariant{l, false, 0, 0}, asmVariant{l, true, 0, 0}, asmVariant{l, true, 0x008000, 0}, asmVariant{l, true, 0x7E2000, 0}, asmVariant{l, true, 0xFF8000, 0})
	}
	return v
}

type asmHistory struct {
	Variant  asmVariant `json:"variant"`
	Ops      []string   `json:"ops"`
	Capacity int        `json:"capacity"`            // buffer size; -1 = nil target
	Split    int        `json:"split,omitempty"`     // C16
	Window   bool       `json:"window,omitempty"`    // C19: the target is a window of a larger array (len < cap)
	ViaClone bool       `json:"via_clone,omitempty"` // C19: the emitter under test is the Clone of a fresh emitter over the target
}

func opsByName(names []string) ([]asmOp, error) {
	al := asmAlphabet()
	var out []asmOp
	for _, n := range names {
		found := false
		for _, o := range al {
			if o.name == n {
				out = append(out, o)
				found = true
			}
		}
		if !found {
			if o, ok := asmDynamicOp(n); ok {
				out = append(out, o)
				continue
			}
			return nil, fmt.Errorf("unknown emitter op %q", n)
		}
	}
	return out, nil
}

// asmDynamicOp: calls outside the fixed alphabet that single checks add -- REP/SEP and AssumeREP/AssumeSEP
// with any mask (C16 flag sweep), SetBase in the middle of a sequence (C19).
func asmDynamicOp(name string) (asmOp, bool) {
	var v uint32
	switch {
	case scan(name, "SEP(#$%02x)", &v):
		return asmOp{name: name, kind: itInstr, real: func(e *asm.Emitter) { e.SEP(asm.Flags(v)) }, model: func(m *asmModel) bool {
			if !m.fits(2) {
				return true
			}
			m.p |= byte(v)
			m.emit(itInstr, []byte{0xE2, byte(v)}, -1)
			return false
		}}, true
	case scan(name, "REP(#$%02x)", &v):
		return asmOp{name: name, kind: itInstr, real: func(e *asm.Emitter) { e.REP(asm.Flags(v)) }, model: func(m *asmModel) bool {
			if !m.fits(2) {
				return true
			}
			m.p &^= byte(v)
			m.emit(itInstr, []byte{0xC2, byte(v)}, -1)
			return false
		}}, true
	case scan(name, "AssumeSEP($%02x)", &v):
		return asmOp{name: name, kind: itComment, real: func(e *asm.Emitter) { e.AssumeSEP(asm.Flags(v)) }, model: func(m *asmModel) bool { m.p |= byte(v); return false }}, true
	case scan(name, "AssumeREP($%02x)", &v):
		return asmOp{name: name, kind: itComment, real: func(e *asm.Emitter) { e.AssumeREP(asm.Flags(v)) }, model: func(m *asmModel) bool { m.p &^= byte(v); return false }}, true
	case name == "EmitBytes(300)":
		return asmOp{name: name, kind: itData, real: func(e *asm.Emitter) { emitBytesAndScribble(e, dataBlock(300)) }, model: func(m *asmModel) bool { return !m.emit(itData, dataBlock(300), -1) }}, true
	case strings.HasPrefix(name, "Comment(\"") && strings.HasSuffix(name, "\")"):
		c, err := strconv.Unquote(name[len("Comment(") : len(name)-1])
		if err != nil {
			return asmOp{}, false
		}
		return asmOp{name: name, real: func(e *asm.Emitter) { e.Comment(c) }, model: func(m *asmModel) bool { m.comment(c); return false }, kind: itComment, text: c}, true
	case strings.HasPrefix(name, "Label(\"") && strings.HasSuffix(name, "\")"):
		l, err := strconv.Unquote(name[len("Label(") : len(name)-1])
		if err != nil {
			return asmOp{}, false
		}
		return asmOp{name: name, real: func(e *asm.Emitter) { e.Label(l) }, model: func(m *asmModel) bool { return !m.label(l) }, kind: itLabel, text: l}, true
	case strings.HasPrefix(name, "M:"):
		var meth string
		var arg uint32
		if i := strings.Index(name, "("); i > 2 {
			meth = name[2:i]
			if _, err := fmt.Sscanf(name[i:], "(%x)", &arg); err == nil {
				return asmMethodOp(meth, arg)
			}
		}
		return asmOp{}, false
	case scan(name, "SetBase($%06x)", &v):
		return asmOp{name: name, kind: itComment, real: func(e *asm.Emitter) { e.SetBase(v) }, model: func(m *asmModel) bool { m.setBase(v); return false }}, true
	}
	return asmOp{}, false
}

func scan(s, format string, v *uint32) bool {
	var x uint32
	if n, err := fmt.Sscanf(s, format, &x); err != nil || n != 1 || fmt.Sprintf(format, x) != s {
		return false
	}
	*v = x
	return true
}

func newRealEmitter(v asmVariant, capacity int) *asm.Emitter {
	var buf []byte
	if capacity >= 0 {
		buf = make([]byte, capacity)
	}
	e := asm.NewEmitter(buf, v.Listing)
	asmConstruct(e, v)
	return e
}

// asmConstruct performs the constructor variant's calls on a fresh emitter.
func asmConstruct(e *asm.Emitter, v asmVariant) {
	switch v.Pre {
	case 1:
		e.Comment("pre")
	case 2:
		e.Label(asmPreLabel)
	}
	if v.BaseSet {
		e.SetBase(v.Base)
	}
}

// asmGuard: the target buffer handed to a real emitter as a window backing[8:8+capacity] of a
// larger array (so len(target) < cap(target)) whose bytes outside the window are canaries.
type asmGuard struct {
	backing []byte
	n       int
}

const asmCanary = 0xC5

func newRealEmitterWindow(v asmVariant, capacity int) (*asm.Emitter, *asmGuard) {
	g := &asmGuard{backing: make([]byte, capacity+24), n: capacity}
	for i := range g.backing {
		g.backing[i] = asmCanary
	}
	e := asm.NewEmitter(g.backing[8:8+capacity], v.Listing)
	asmConstruct(e, v)
	return e, g
}

// intact reports the first byte outside the window that was modified.
func (g *asmGuard) intact() string {
	if g == nil {
		return ""
	}
	for i, b := range g.backing {
		if (i < 8 || i >= 8+g.n) && b != asmCanary {
			return fmt.Sprintf("byte %+d relative to the %d-byte target buffer was overwritten with $%02x (the buffer is a window of a larger array)", i-8, g.n, b)
		}
	}
	return ""
}

func newModelFor(v asmVariant, capacity int) *asmModel {
	m := newAsmModel(capacity)
	switch v.Pre {
	case 1:
		m.comment("pre")
	case 2:
		m.label(asmPreLabel)
	}
	if v.BaseSet {
		m.setBase(v.Base)
	}
	return m
}

// applyReal runs one call on the real emitter under recover.
func applyReal(e *asm.Emitter, op asmOp) (panicked interface{}) {
	defer func() { panicked = recover() }()
	op.real(e)
	return nil
}

// observeStep applies one call to the REAL emitter and records in om what the emitter did: whether it
// accepted the call, how many bytes it appended and which, at the address where those bytes really sit
// (base + offset into Bytes()). om is therefore a description of the program the emitter itself built,
// not a prediction: checks of listings (C15) and of Finalize (C06) judge the emitter against its own
// earlier behaviour and stay silent about encoding, width guards, capacity and PC bookkeeping, which
// are other properties' business (C03, C07, C19).
func observeStep(e *asm.Emitter, om *asmModel, op asmOp) (panicked interface{}) {
	lenBefore := e.Len()
	if panicked = applyReal(e, op); panicked != nil {
		return
	}
	om.record(op.kind, op.text, op.refLabel != "", op.refLabel, op.refS8, lenBefore, e)
	return nil
}

func (om *asmModel) record(kind asmItemKind, text string, isRef bool, refLabel string, refS8 bool, lenBefore int, e *asm.Emitter) {
	addr := om.base + uint32(lenBefore)
	switch kind {
	case itLabel:
		if _, dup := om.labels[text]; !dup {
			om.labels[text] = addr
		}
		om.items = append(om.items, asmItem{kind: itLabel, addr: addr, text: text, ref: -1})
	case itComment:
		om.items = append(om.items, asmItem{kind: itComment, addr: addr, text: text, ref: -1})
	default:
		var b []byte
		if n := e.Len(); n >= lenBefore && n <= len(e.Bytes()) {
			b = append(b, e.Bytes()[lenBefore:n]...)
		}
		ref := -1
		want := 3
		if refS8 {
			want = 2
		}
		if isRef && len(b) == want { // a reference of another shape is an encoding matter (C03), not judged here
			om.refs = append(om.refs, asmRef{refS8, refLabel, addr + 1})
			ref = len(om.refs) - 1
		}
		om.items = append(om.items, asmItem{kind: kind, addr: addr, bytes: b, ref: ref})
		om.bytes = append(om.bytes, b...)
		om.pc = addr + uint32(len(b))
	}
}

// runObserved applies ops to a fresh real emitter and returns it with the observed description.
func runObserved(v asmVariant, capacity int, ops []asmOp) (*asm.Emitter, *asmModel) {
	e := newRealEmitter(v, capacity)
	om := newModelFor(v, capacity)
	for _, op := range ops {
		observeStep(e, om, op)
	}
	return e, om
}

// runObservedRefusals is runObserved that also reports which calls were refused (bit i = call #i).
func runObservedRefusals(v asmVariant, capacity int, ops []asmOp) (*asm.Emitter, *asmModel, uint64) {
	e := newRealEmitter(v, capacity)
	om := newModelFor(v, capacity)
	var refused uint64
	for i, op := range ops {
		if observeStep(e, om, op) != nil {
			refused |= 1 << uint(i&63)
		}
	}
	return e, om, refused
}

// observable state of a real emitter
type asmLabelObs struct {
	name string
	v    uint32
	ok   bool
}

type asmObs struct {
	bytes  []byte
	n      int
	pc     uint32
	base   uint32
	flags  byte
	labels []asmLabelObs // one entry per queried name, in query order
}

func observe(e *asm.Emitter, names []string) asmObs {
	o := asmObs{n: e.Len(), pc: e.PC(), base: e.GetBase(), flags: byte(e.Flags())}
	if e.Cap() > 0 || e.Len() > 0 {
		o.bytes = append([]byte(nil), e.Bytes()...)
	}
	if len(names) > 0 {
		o.labels = make([]asmLabelObs, len(names))
		for i, n := range names {
			v, ok := e.GetLabel(n)
			if !ok {
				v = 0
			}
			o.labels[i] = asmLabelObs{n, v, ok}
		}
	}
	return o
}

func sameLabels(a, b []asmLabelObs) bool {
	if len(a) != len(b) {
		return false
	}
	for i := range a {
		if a[i] != b[i] {
			return false
		}
	}
	return true
}

func (o asmObs) equal(p asmObs) bool {
	return bytes.Equal(o.bytes, p.bytes) && o.n == p.n && o.pc == p.pc && o.base == p.base && o.flags == p.flags && sameLabels(o.labels, p.labels)
}

func (o asmObs) String() string {
	var l []string
	for _, x := range o.labels {
		if x.ok {
			l = append(l, fmt.Sprintf("%s=$%06x", x.name, x.v))
		}
	}
	return fmt.Sprintf("bytes=% x len=%d pc=$%06x base=$%06x flags=%02x labels=%v", o.bytes, o.n, o.pc, o.base, o.flags, l)
}

// the two labels of the alphabet: the second has the first as a prefix and is longer than the
// 12-character listing column, so name handling (map keys, truncation) cannot hide behind "a"/"b"
var asmLabelNames = []string{"a", "a_long_label_name_b"}

func asmLabelName(sym string) string {
	if sym == "b" {
		return asmLabelNames[1]
	}
	return asmLabelNames[0]
}

// asmLongProgram: one deterministic call sequence of n alphabet symbols (every symbol occurs, labels are
// defined once and then refused, references pile up on both labels, several data blocks): the short
// histories never make the emitter's internal lists grow past their first few capacity steps.
func asmLongProgram(n, salt int) []asmOp {
	al := asmAlphabet()
	byName := map[string]asmOp{}
	for _, o := range al {
		byName[o.name] = o
	}
	ops := make([]asmOp, 0, n)
	for k := 0; k < n; k++ {
		o := al[(k*7+salt*3+k/5+k*k/11)%len(al)]
		if salt%2 == 1 && o.refS8 {
			// odd salts: no 8-bit branches (over such distances they are out of range and Finalize would
			// only ever fail); their place is taken by absolute jumps to the same label, so Finalize succeeds
			// and its patched bytes can be compared
			sym := "a"
			if o.refLabel == asmLabelNames[1] {
				sym = "b"
			}
			o = byName["JMP_abs("+sym+")"]
		}
		ops = append(ops, o)
	}
	return ops
}

func opNames(ops []asmOp) []string {
	out := make([]string, len(ops))
	for i, o := range ops {
		out[i] = o.name
	}
	return out
}

// forEachHistory enumerates all op sequences up to depth (every non-empty prefix is visited once).
func forEachHistory(depth int, f func(idx []int)) {
	n := len(asmAlphabet())
	var rec func(p []int, d int)
	rec = func(p []int, d int) {
		if len(p) > 0 {
			f(p)
		}
		if d == 0 {
			return
		}
		for i := 0; i < n; i++ {
			rec(append(p, i), d-1)
		}
	}
	rec(make([]int, 0, depth), depth)
}

func historyNames(al []asmOp, idx []int) []string {
	out := make([]string, len(idx))
	for i, k := range idx {
		out[i] = al[k].name
	}
	return out
}


// asmMethodOp: any instruction method of the emitter that takes no label, found by reflection and
// described by the C03 classification (opcode from the ISA table, operand bytes in call order, width guard),
// as a symbol for the history checks -- the fixed alphabet holds only a dozen of the ninety methods.
func asmMethodOp(meth string, arg uint32) (asmOp, bool) {
	sp, ok := c03Classify()[meth]
	if !ok || sp.label {
		return asmOp{}, false
	}
	op, ok := opcodeFor(sp.mn, sp.mode)
	if !ok {
		return asmOp{}, false
	}
	name := fmt.Sprintf("M:%s(%x)", meth, arg)
	return asmOp{name: name, kind: itInstr,
		real: func(e *asm.Emitter) {
			b, err := c03Bind(e, meth)
			if err != nil {
				panic(err)
			}
			if _, pn, _ := c03Call(b, meth, arg); pn != nil {
				panic(pn)
			}
		},
		model: func(m *asmModel) bool {
			if !guardOK(sp.guard, m.p) {
				return true
			}
			n := ref65816.Length(op, m.p&0x20 != 0, m.p&0x10 != 0)
			bs := []byte{op}
			for i := 1; i < n; i++ {
				bs = append(bs, byte(arg>>(8*(i-1))))
			}
			if !m.fits(n) {
				return true
			}
			switch meth {
			case "SEP":
				m.p |= byte(arg)
			case "REP":
				m.p &^= byte(arg)
			}
			m.emit(itInstr, bs, -1)
			return false
		}}, true
}

// asmTextOps: comments and labels whose text is not plain ASCII words: UTF-8 beyond one byte per character,
// format verbs, a tab, bytes that are not UTF-8 at all. A listing shows them as they were given.
func asmTextOps() (out []asmOp) {
	for _, c := range []string{"copy A \u2192 X, wait \u2248 5 \u00b5s", "100% done: %d %s %02x %!", "tab\there", "raw \xff\xfe bytes", "\u30e9\u30d9\u30eb"} {
		op, _ := asmDynamicOp(fmt.Sprintf("Comment(%q)", c))
		out = append(out, op)
	}
	for _, l := range []string{"d\u00e9but", "\u30e9\u30d9\u30eb", "pct%d"} {
		op, _ := asmDynamicOp(fmt.Sprintf("Label(%q)", l))
		out = append(out, op)
	}
	return
}

// asmMethodOps: every such method with two operand patterns (all operand bytes $F8: negative as a signed
// displacement; $03,$02,$01).
func asmMethodOps() (out []asmOp) {
	e := asm.NewEmitter(nil, false)
	var names []string
	for n, sp := range c03Classify() {
		if !sp.label {
			if _, err := c03Bind(e, n); err == nil {
				names = append(names, n)
			}
		}
	}
	sort.Strings(names)
	for _, n := range names {
		for _, arg := range []uint32{0xF8F8F8, 0x010203} {
			if cnt, _ := c03ArgCount(e, n); cnt == 1 && arg != 0xF8F8F8 {
				continue
			}
			if op, ok := asmMethodOp(n, arg); ok {
				out = append(out, op)
			}
		}
	}
	return
}
