// Package checks holds one exhaustive exploration per property.
package checks

import (
	"encoding/json"
	"fmt"
	"os"

	"verif/internal/report"
)

type Check struct {
	// GC is the GC percent the explorer runs with (0 = 400). Checks that hold large pointer-dense
	// tables (bus segment tables) do better with a small, reused heap; allocation-heavy checks on
	// small objects do better with rare collections.
	GC    int
	Level string
	Run   func(r *report.Run)
	// Replay re-executes one recorded case and returns a description of what was observed.
	Replay func(c json.RawMessage) (string, error)
}

var Registry = map[string]Check{}

// Replay re-executes a replay file twice and insists on identical observations.
func Replay(path string) int {
	b, err := os.ReadFile(path)
	if err != nil {
		fmt.Println(err)
		return 2
	}
	var doc struct {
		Property  string          `json:"property"`
		Signature string          `json:"signature"`
		What      string          `json:"what"`
		Case      json.RawMessage `json:"case"`
	}
	if err := json.Unmarshal(b, &doc); err != nil {
		fmt.Println(err)
		return 2
	}
	c, ok := Registry[doc.Property]
	if !ok || c.Replay == nil {
		fmt.Println("no replayer for", doc.Property)
		return 2
	}
	o1, e1 := c.Replay(doc.Case)
	o2, e2 := c.Replay(doc.Case)
	if o1 != o2 || (e1 == nil) != (e2 == nil) {
		fmt.Println("NONDETERMINISTIC REPLAY:\n", o1, "\n", o2)
		return 2
	}
	fmt.Println("recorded:", doc.What)
	fmt.Println("observed:", o1)
	if e1 != nil {
		fmt.Println("replay reproduces the violation:", e1)
		return 1
	}
	fmt.Println("replay does not violate the property on this tree")
	return 0
}
