package checks

import (
	"bytes"
	"encoding/json"
	"fmt"
	"reflect"
	"sort"
	"strings"
	"sync/atomic"

	"github.com/alttpo/snes/asm"

	"verif/internal/par"
	"verif/internal/ref65816"
	"verif/internal/report"
)

func init() {
	Registry["C03"] = Check{Level: "exploration", Run: runC03, Replay: replayC03}
}

type c03Spec struct {
	mn    string
	mode  ref65816.Mode
	guard string // "", "m8", "m16", "x8", "x16"
	label bool   // takes a label: operand bytes are the $FF placeholder
}

var c03NonInstruction = map[string]bool{"Clone": true, "Append": true, "WriteTextTo": true, "WriteHexTo": true, "Finalize": true, "Label": true, "GetLabel": true,
	"Cap": true, "Len": true, "Bytes": true, "PC": true, "SetBase": true, "GetBase": true, "Comment": true, "EmitBytes": true,
	"Flags": true, "IsM16bit": true, "IsX16bit": true, "AssumeREP": true, "AssumeSEP": true}

// classification of the instruction methods by name (DESIGN Appendix D)
func c03Classify() map[string]c03Spec {
	t := map[string]c03Spec{}
	add := func(mode ref65816.Mode, guard string, names ...string) {
		for _, n := range names {
			mn := strings.ToUpper(strings.SplitN(n, "_", 2)[0])
			t[n] = c03Spec{mn: mn, mode: mode, guard: guard}
		}
	}
	add(ref65816.Imp, "", "NOP", "RTS", "RTL", "RTI", "DEX", "DEY", "PHB", "PHA", "PHX", "PHY", "PHP", "PHD", "PHK", "TCD", "PLD", "PLP", "PLY", "PLX", "PLA", "PLB", "XBA", "SEI", "CLI", "CLC", "STP", "TXA", "TAX")
	add(ref65816.Acc, "", "ASL")
	add(ref65816.Im8, "", "REP", "SEP", "WDM")
	add(ref65816.ImM, "m8", "LDA_imm8_b", "ORA_imm8_b", "CMP_imm8_b", "ADC_imm8_b", "AND_imm8_b", "SBC_imm8_b")
	add(ref65816.ImM, "m16", "LDA_imm16_w", "LDA_imm16_lh", "ORA_imm16_w", "CMP_imm16_w", "AND_imm16_w")
	add(ref65816.ImX, "x8", "CPY_imm8_b", "LDX_imm8_b", "LDY_imm8_b")
	add(ref65816.ImX, "x16", "LDX_imm16_w", "LDY_imm16_w")
	add(ref65816.Dp, "", "STA_dp", "STY_dp", "STZ_dp", "INC_dp", "DEC_dp", "LDA_dp")
	add(ref65816.Dpx, "", "STY_dp_x")
	add(ref65816.Abs, "", "JSR_abs", "LDA_abs", "STA_abs", "STY_abs", "LDY_abs", "STZ_abs", "INC_abs", "DEC_abs", "LDX_abs", "STX_abs", "JMP_abs_imm16_w")
	add(ref65816.Abx, "", "LDA_abs_x", "STA_abs_x", "STZ_abs_x")
	add(ref65816.Iab, "", "JMP_indirect")
	add(ref65816.Lng, "", "JSL", "JSL_lhb", "JML", "LDA_long", "STA_long", "ORA_long", "CMP_long")
	add(ref65816.Lnx, "", "LDA_long_x")
	add(ref65816.Rel, "", "BNE_imm8", "BEQ_imm8", "BPL_imm8", "BRA_imm8")
	add(ref65816.Blk, "", "MVN")
	for _, n := range []string{"BNE", "BEQ", "BPL", "BMI", "BCC", "BCS", "BRA"} {
		t[n] = c03Spec{mn: n, mode: ref65816.Rel, label: true}
	}
	t["JMP_abs"] = c03Spec{mn: "JMP", mode: ref65816.Abs, label: true}
	return t
}

func opcodeFor(mn string, mode ref65816.Mode) (byte, bool) {
	for op := 0; op < 256; op++ {
		e := ref65816.Table[op]
		if e.Mode != mode {
			continue
		}
		if e.Mn == mn || mnemonicAlias[e.Mn] == mn {
			return byte(op), true
		}
	}
	return 0, false
}

type c03Case struct {
	Method string `json:"method"`
	Arg    uint32 `json:"arg"` // operand value: single argument, or lo | hi<<8 | bank<<16, or dst | src<<8
	P      byte   `json:"tracked_p"`
	Deep   bool   `json:"deep"`
	// Listing: the emitter was created with listing generation on (what is emitted must not depend on it)
	Listing bool `json:"listing,omitempty"`
	// At: the emitter's PC before the call (the exploration keeps emitting into one emitter, so calls are
	// made at many positions, across bank seams); the replay places a fresh emitter there
	At uint32 `json:"at,omitempty"`
}

// c03Emit calls the method on e with the operand value encoded in arg; returns the expected operand bytes.
func c03Bind(e *asm.Emitter, name string) (interface{}, error) {
	m := reflect.ValueOf(e).MethodByName(name)
	if !m.IsValid() {
		return nil, fmt.Errorf("no method %s", name)
	}
	return m.Interface(), nil
}

func c03Call(bound interface{}, name string, arg uint32) (operand []byte, panicked interface{}, err error) {
	defer func() {
		if x := recover(); x != nil {
			panicked = x
		}
	}()
	switch f := bound.(type) {
	case func():
		f()
	case func(uint8):
		operand = []byte{byte(arg)}
		f(uint8(arg))
	case func(int8):
		operand = []byte{byte(arg)}
		f(int8(arg))
	case func(asm.Flags):
		operand = []byte{byte(arg)}
		f(asm.Flags(arg))
	case func(uint16):
		operand = []byte{byte(arg), byte(arg >> 8)}
		f(uint16(arg))
	case func(uint32):
		operand = []byte{byte(arg), byte(arg >> 8), byte(arg >> 16)}
		f(arg)
	case func(uint8, uint8):
		operand = []byte{byte(arg), byte(arg >> 8)}
		f(uint8(arg), uint8(arg>>8))
	case func(uint8, uint8, uint8):
		operand = []byte{byte(arg), byte(arg >> 8), byte(arg >> 16)}
		f(uint8(arg), uint8(arg>>8), uint8(arg>>16))
	case func(string):
		f("target")
	default:
		return nil, nil, fmt.Errorf("method %s has an unsupported signature %T", name, bound)
	}
	return
}

func c03ArgCount(e *asm.Emitter, name string) (uint64, bool) {
	m := reflect.ValueOf(e).MethodByName(name)
	switch m.Interface().(type) {
	case func(), func(string):
		return 1, true
	case func(uint8), func(int8), func(asm.Flags):
		return 1 << 8, true
	case func(uint16), func(uint8, uint8):
		return 1 << 16, true
	case func(uint32), func(uint8, uint8, uint8):
		return 1 << 24, true
	}
	return 0, false
}

func guardOK(g string, p byte) bool {
	switch g {
	case "m8":
		return p&0x20 != 0
	case "m16":
		return p&0x20 == 0
	case "x8":
		return p&0x10 != 0
	case "x16":
		return p&0x10 == 0
	}
	return true
}

type c03Runner struct {
	bound     interface{}
	boundName string
	e         *asm.Emitter
	buf       []byte
	p         byte
	x         *cpuCtx
	spec      map[string]c03Spec
	listing   bool
	base      uint32 // where fresh() places the emitter (0 = $008000)
	lastPC    uint32 // PC before the last checked call
}

func (rn *c03Runner) fresh(p byte) {
	if rn.buf == nil {
		rn.buf = make([]byte, 1<<16)
	}
	rn.e = asm.NewEmitter(rn.buf, rn.listing)
	if rn.base != 0 {
		rn.e.SetBase(rn.base)
	} else {
		rn.e.SetBase(0x008000)
	}
	rn.e.AssumeSEP(asm.Flags(p & 0x30))
	rn.p = p & 0x30
	rn.boundName = ""
}

// check one (method, operand, tracked widths) case. deep additionally runs the library's own decoders/CPUs.
func (rn *c03Runner) check(name string, sp c03Spec, arg uint32, p byte, deep bool) (sig, what string) {
	if rn.e == nil || rn.p != p&0x30 || rn.e.Len()+4 > rn.e.Cap() {
		rn.fresh(p)
	}
	e := rn.e
	if name == "REP" || name == "SEP" || sp.label {
		// these calls change the tracked widths / leave a dangling reference: never reuse the emitter
		defer func() { rn.e = nil }()
	}
	if rn.boundName != name {
		b, err := c03Bind(e, name)
		if err != nil {
			return "oracle-broken", err.Error()
		}
		rn.bound, rn.boundName = b, name
	}
	n0, pc0 := e.Len(), e.PC()
	rn.lastPC = pc0
	operand, pn, err := c03Call(rn.bound, name, arg)
	if err != nil {
		return "oracle-broken", err.Error()
	}
	legal := guardOK(sp.guard, p)
	desc := func() string { return fmt.Sprintf("%s(%#x) with tracked P=%02x", name, arg, p&0x30) }
	if !legal {
		if pn == nil {
			return "unexplained:width-mismatch-accepted:" + name, desc() + ": operand size disagrees with the tracked width but the call was accepted"
		}
		if e.Len() != n0 || e.PC() != pc0 {
			return "unexplained:refused-call-changed-state:" + name, desc() + ": refused call changed Len/PC"
		}
		return "", ""
	}
	if pn != nil {
		return "unexplained:legal-call-refused:" + name, fmt.Sprintf("%s: refused: %v", desc(), pn)
	}
	op, ok := opcodeFor(sp.mn, sp.mode)
	if !ok {
		return "oracle-broken", fmt.Sprintf("no opcode for %s %s in the ISA table", sp.mn, modeName[sp.mode])
	}
	ilen := ref65816.Length(op, p&0x20 != 0, p&0x10 != 0)
	want := []byte{op}
	if sp.label {
		for i := 1; i < ilen; i++ {
			want = append(want, 0xFF)
		}
	} else if sp.mode == ref65816.Blk {
		want = append(want, operand[0], operand[1]) // destination bank, then source bank
	} else {
		want = append(want, operand...)
	}
	got := e.Bytes()[n0:]
	if len(want) != ilen {
		return "unexplained:operand-width:" + name, fmt.Sprintf("%s: method passes %d operand bytes, %s %s is %d bytes long here", desc(), len(want)-1, sp.mn, modeName[sp.mode], ilen)
	}
	if len(got) != len(want) || e.Len()-n0 != ilen || e.PC()-pc0 != uint32(ilen) {
		return "unexplained:length:" + name, fmt.Sprintf("%s: emitted % x (Len +%d, PC +%d), want %d bytes % x", desc(), got, e.Len()-n0, e.PC()-pc0, ilen, want)
	}
	for i := range want {
		if got[i] != want[i] {
			return "unexplained:encoding:" + name, fmt.Sprintf("%s: emitted % x, canonical encoding of %s %s is % x", desc(), got, sp.mn, modeName[sp.mode], want)
		}
	}
	// independent decoder: bytes -> (mnemonic, mode, operand)
	de := ref65816.Table[got[0]]
	if !(de.Mn == sp.mn || mnemonicAlias[de.Mn] == sp.mn) || de.Mode != sp.mode {
		return "unexplained:decodes-differently:" + name, fmt.Sprintf("%s: % x decodes as %s %s", desc(), got, de.Mn, modeName[de.Mode])
	}
	if !deep {
		return "", ""
	}
	// an emitter without a target buffer (dry run, used to measure code) must account for the same length
	{
		de := asm.NewEmitter(nil, rn.listing)
		de.SetBase(0x008000)
		de.AssumeSEP(asm.Flags(p & 0x30))
		b, err := c03Bind(de, name)
		if err != nil {
			return "oracle-broken", err.Error()
		}
		dpc := de.PC()
		if _, dpn, _ := c03Call(b, name, arg); dpn != nil {
			return "unexplained:dry-run-refuses:" + name, fmt.Sprintf("%s: an emitter without a target buffer refused the call: %v", desc(), dpn)
		}
		if de.PC()-dpc != uint32(ilen) {
			return "unexplained:dry-run-length:" + name, fmt.Sprintf("%s: an emitter without a target buffer advanced PC by %d, the instruction is %d bytes long", desc(), de.PC()-dpc, ilen)
		}
	}
	// a clone WITH a buffer of its own, made from a parent WITHOUT one (the sizing pass builds a block in a
	// scratch buffer): the instruction is emitted into the clone's buffer like into any other
	{
		parent := asm.NewEmitter(nil, rn.listing)
		parent.SetBase(0x008000)
		parent.AssumeSEP(asm.Flags(p & 0x30))
		buf := make([]byte, 8)
		cl := parent.Clone(buf)
		b, err := c03Bind(cl, name)
		if err != nil {
			return "oracle-broken", err.Error()
		}
		if _, cpn, _ := c03Call(b, name, arg); cpn != nil {
			return "unexplained:clone-of-dry-run-refuses:" + name, fmt.Sprintf("%s on a clone (own 8-byte buffer) of an emitter without a target: refused: %v", desc(), cpn)
		}
		if cl.Len() != ilen || cl.PC() != 0x008000+uint32(ilen) || !bytes.Equal(cl.Bytes(), got) || !bytes.Equal(buf[:ilen], got) {
			return "unexplained:clone-of-dry-run:" + name, fmt.Sprintf("%s on a clone (own 8-byte buffer) of an emitter without a target: Len=%d PC=$%06x Bytes=% x buffer % x, want % x", desc(), cl.Len(), cl.PC(), cl.Bytes(), buf, got)
		}
	}
	// a VALUE COPY of a fresh emitter (the struct is exported and copyable; a caller may embed it): the
	// instruction must be emitted into the copy, whose Len/PC/Bytes account for it
	{
		orig := asm.NewEmitter(make([]byte, 8), rn.listing)
		orig.SetBase(0x008000)
		orig.AssumeSEP(asm.Flags(p & 0x30))
		cp := *orig
		b, err := c03Bind(&cp, name)
		if err != nil {
			return "oracle-broken", err.Error()
		}
		if _, cpn, _ := c03Call(b, name, arg); cpn != nil {
			return "unexplained:value-copy-refuses:" + name, fmt.Sprintf("%s: a value copy of the emitter refused the call: %v", desc(), cpn)
		}
		if cp.Len() != ilen || cp.PC() != 0x008000+uint32(ilen) || len(cp.Bytes()) != ilen || cp.Bytes()[0] != op || orig.Len() != 0 {
			return "unexplained:value-copy:" + name, fmt.Sprintf("%s on a value copy of a fresh emitter: copy Len=%d PC=$%06x Bytes=% x, original Len=%d; want %d bytes in the copy only", desc(), cp.Len(), cp.PC(), cp.Bytes(), orig.Len(), ilen)
		}
	}
	// the target is a WINDOW of a larger array (an image patched in place): with exactly the instruction's
	// length left it is emitted completely and nothing outside the window is written; with one byte less an
	// accepted call would have emitted less than the instruction (Len/PC could not both advance by its
	// length), so the call has to be refused
	for short := 0; short <= 1; short++ {
		arr := make([]byte, 16)
		for i := range arr {
			arr[i] = 0xC5
		}
		we := asm.NewEmitter(arr[4:4+ilen-short], rn.listing)
		we.SetBase(0x008000)
		we.AssumeSEP(asm.Flags(p & 0x30))
		b, err := c03Bind(we, name)
		if err != nil {
			return "oracle-broken", err.Error()
		}
		_, wpn, _ := c03Call(b, name, arg)
		outside := false
		for i, v := range arr {
			if (i < 4 || i >= 4+ilen-short) && v != 0xC5 {
				outside = true
			}
		}
		if outside {
			return "unexplained:window-overrun:" + name, fmt.Sprintf("%s into a %d-byte window of a larger array: bytes outside the window were written: % x", desc(), ilen-short, arr)
		}
		if short == 0 {
			if wpn != nil {
				return "unexplained:window-refuses:" + name, fmt.Sprintf("%s into a window of exactly %d bytes was refused: %v", desc(), ilen, wpn)
			}
			if we.Len() != ilen || we.PC() != 0x008000+uint32(ilen) || !bytes.Equal(we.Bytes(), got) {
				return "unexplained:window-length:" + name, fmt.Sprintf("%s into a window of exactly %d bytes: Len=%d PC=$%06x Bytes=% x, want % x", desc(), ilen, we.Len(), we.PC(), we.Bytes(), got)
			}
		} else if wpn == nil {
			return "unexplained:partial-instruction-accepted:" + name, fmt.Sprintf("%s into a window of %d bytes (one less than the instruction) was accepted: Len=%d PC=$%06x Bytes=% x; the instruction is % x", desc(), ilen-1, we.Len(), we.PC(), we.Bytes(), got)
		}
	}
	// the library's own CPUs: trace line and instruction length
	for i := 0; i < 2; i++ {
		m := rn.x.ms[i]
		mem := m.Mem()
		mem.Seed = 0x1234567
		mem.Ov = mem.Ov[:0]
		mem.ClearLog()
		for k, b := range got {
			mem.Set(pc0+uint32(k), b)
		}
		for k := len(got); k < 6; k++ {
			mem.Set(pc0+uint32(k), 0xEA)
		}
		st := ref65816.State{K: byte(pc0 >> 16), PC: uint16(pc0), P: p & 0x30, S: 0x01FF, C: 0x0003, X: 0x10, Y: 0x20, DBR: 0x7E}
		raw := mkRaw(st, 0, 0)
		m.Load(raw)
		line, dpn := m.Disasm()
		if dpn != nil {
			return "unexplained:cpu-disassembler-panics:" + name, fmt.Sprintf("%s: %s disassembler panicked: %v", desc(), m.Name(), dpn)
		}
		if kind, w := checkTraceLine(string(line), st, mem.Peek, false); kind != "" {
			return "unexplained:cpu-decodes-differently:" + name, fmt.Sprintf("%s: %s renders % x as %q: %s", desc(), m.Name(), got, strings.TrimSpace(string(line)), w)
		}
		switch sp.mn {
		case "JMP", "JML", "JSR", "JSL", "RTS", "RTL", "RTI", "BNE", "BEQ", "BPL", "BMI", "BCC", "BCS", "BRA", "MVN", "STP":
		default:
			_, _, spn := m.Step()
			if spn != nil {
				return "unexplained:cpu-step-panics:" + name, fmt.Sprintf("%s: %s Step panicked: %v", desc(), m.Name(), spn)
			}
			if after := m.Save(); after.PC != uint16(pc0)+uint16(ilen) && sp.mn != "REP" && sp.mn != "SEP" {
				return "unexplained:cpu-length:" + name, fmt.Sprintf("%s: %s advanced PC by %d, the instruction is %d bytes", desc(), m.Name(), after.PC-uint16(pc0), ilen)
			} else if (sp.mn == "REP" || sp.mn == "SEP") && after.PC != uint16(pc0)+2 {
				return "unexplained:cpu-length:" + name, fmt.Sprintf("%s: %s advanced PC by %d", desc(), m.Name(), after.PC-uint16(pc0))
			}
		}
	}
	return "", ""
}

func replayC03(raw json.RawMessage) (string, error) {
	var c c03Case
	if err := json.Unmarshal(raw, &c); err != nil {
		return "", err
	}
	spec := c03Classify()
	sp, ok := spec[c.Method]
	if !ok {
		return "", fmt.Errorf("unclassified method %s", c.Method)
	}
	rn := &c03Runner{x: newCPUCtx(), spec: spec, listing: c.Listing, base: c.At}
	sig, what := rn.check(c.Method, sp, c.Arg, c.P, true)
	if sig == "" {
		return "canonical encoding, length and decode agree", nil
	}
	return what, fmt.Errorf("%s", sig)
}

func boundaryArgs(n uint64) []uint32 {
	bs := []uint32{0x00, 0x01, 0x7F, 0x80, 0xFE, 0xFF, 0x12, 0x34}
	switch n {
	case 1:
		return []uint32{0}
	case 1 << 8:
		out := make([]uint32, 256)
		for i := range out {
			out[i] = uint32(i)
		}
		return out
	case 1 << 16:
		var out []uint32
		for _, a := range bs {
			for _, b := range bs {
				out = append(out, a|b<<8)
			}
		}
		return out
	}
	var out []uint32
	for _, a := range bs {
		for _, b := range bs {
			for _, c := range bs {
				out = append(out, a|b<<8|c<<16)
			}
		}
	}
	return out
}

func runC03(r *report.Run) {
	thorough := r.Tier == "thorough"
	spec := c03Classify()
	probe := asm.NewEmitter(make([]byte, 16), false)
	t := reflect.TypeOf(probe)
	var methods, unclassified []string
	for i := 0; i < t.NumMethod(); i++ {
		n := t.Method(i).Name
		if c03NonInstruction[n] {
			continue
		}
		if _, ok := spec[n]; ok {
			methods = append(methods, n)
		} else {
			unclassified = append(unclassified, n)
		}
	}
	sort.Strings(methods)
	var missing []string
	for n := range spec {
		if !reflect.ValueOf(probe).MethodByName(n).IsValid() {
			missing = append(missing, n)
		}
	}
	sort.Strings(missing)
	// jobs: (method, tracked P, chunk of the operand space)
	type job struct {
		name   string
		p      byte
		lo, hi uint64
		deep   bool
	}
	var jobs []job
	full24 := map[string]bool{"JSL": true, "LDA_long": true}
	for _, n := range methods {
		cnt, ok := c03ArgCount(probe, n)
		if !ok {
			unclassified = append(unclassified, n+" (signature)")
			continue
		}
		for _, p := range []byte{0x00, 0x10, 0x20, 0x30} {
			// deep pass over boundary operands
			jobs = append(jobs, job{n, p, 0, 0, true})
			if cnt == 1<<24 && !thorough && !full24[n] {
				// quick tier: all values with at most two non-boundary bytes are covered by three 2^16 planes
				jobs = append(jobs, job{n, p, 0, 0, false})
				continue
			}
			step := uint64(1 << 20)
			for lo := uint64(0); lo < cnt; lo += step {
				hi := lo + step
				if hi > cnt {
					hi = cnt
				}
				jobs = append(jobs, job{n, p, lo, hi, false})
			}
		}
	}
	ctxs := make([]*c03Runner, 2*par.Workers())
	var evals, legalEvals int64
	// every job twice: listing generation off and on
	par.For(2*len(jobs), func(w, ji2 int) {
		ji, listing := ji2/2, ji2%2 == 1
		slot := 2 * w
		if listing {
			slot++
		}
		if ctxs[slot] == nil {
			ctxs[slot] = &c03Runner{x: newCPUCtx(), spec: spec, listing: listing}
		}
		rn := ctxs[slot]
		j := jobs[ji]
		sp := spec[j.name]
		cnt, _ := c03ArgCount(probe, j.name)
		var n, nl int64
		one := func(arg uint32, deep bool) {
			n++
			if guardOK(sp.guard, j.p) {
				nl++
			}
			if sig, what := rn.check(j.name, sp, arg, j.p, deep); sig != "" {
				r.Violation(sig, what, c03Case{j.name, arg, j.p, deep, listing, rn.lastPC})
			}
		}
		if listing && !j.deep && cnt == 1<<24 && j.hi != 0 {
			// listing on: the 24-bit methods get the three 2^16 planes instead of all 2^24 values
			// (every listing line is kept by the emitter; what is emitted must not depend on the operand AND the mode)
			if j.lo != 0 {
				return
			}
			j.lo, j.hi = 0, 0
		}
		switch {
		case j.deep:
			for _, a := range boundaryArgs(cnt) {
				one(a, true)
			}
		case j.hi == 0:
			// three planes: two bytes free, the third from the boundary alphabet
			for _, fixed := range []uint32{0x00, 0x01, 0x7F, 0x80, 0xFE, 0xFF} {
				for v := uint32(0); v < 1<<16; v++ {
					one(v|fixed<<16, false)
					one(v&0xFF|fixed<<8|(v>>8)<<16, false)
					one(fixed|v<<8, false)
				}
			}
		default:
			for a := j.lo; a < j.hi; a++ {
				one(uint32(a), false)
			}
		}
		atomic.AddInt64(&evals, n)
		atomic.AddInt64(&legalEvals, nl)
	})
	r.Set("evaluations", evals)
	r.Set("distinct_nontrivial", legalEvals)
	r.Set("instruction_methods", len(methods))
	r.Set("methods", methods)
	r.Set("unclassified_methods", unclassified)
	r.Set("classified_but_missing", missing)
	ex := thorough
	r.Set("exhaustive", ex)
	if !ex {
		r.Set("exhaustive_note", "quick tier: every operand value for all 8-/16-bit methods, all 2^24 values for JSL and LDA_long, and for the other long methods every value with at most two non-boundary bytes (three 2^16 planes x 6 boundary values); the thorough tier enumerates all 2^24 for every long method")
	}
	r.Set("rule", "every instruction method found by reflection x each of the 4 tracked (m,x) width states x every operand value of its operand type, with listing generation off and on: emitted bytes == opcode from the independent ISA table followed by the little-endian operand (destination then source bank for MVN), Len and PC advance by the architectural length, an independent decoder maps the bytes back to the same mnemonic and mode; width-guarded immediates must be refused exactly when the tracked width disagrees; a deep pass over boundary operands additionally repeats the call on an emitter without a target buffer (PC must advance by the same length) and has both CPU packages disassemble the bytes (same mnemonic, operand digits and mode features) and Step over them (same length); non-trivial = the call is legal in that width state (an instruction is really emitted)")
	r.Sample(c03Case{"LDA_long", 0x7EF340, 0x20, true, false, 0})
	r.Sample(c03Case{"MVN", 0x7F7E, 0x00, true, true, 0x00FFFE})
	r.Sample(c03Case{"LDA_imm16_w", 0x1234, 0x20, false, false, 0})
	r.Assume("method names promise their mnemonic and addressing mode (classification table of DESIGN Appendix D); methods found by reflection that the table does not know are listed as unclassified, not judged")
}
