package checks

import (
	"encoding/json"
	"fmt"
	"strings"
	"sync/atomic"

	"verif/internal/cpuh"
	"verif/internal/ref65816"
	"verif/internal/report"
)

func init() {
	Registry["C02"] = Check{GC: 25, Level: "model_checking", Run: runC02, Replay: replayC02}
}

// rawDiff lists the exported fields in which the two interpreters differ.
func rawDiff(a, b cpuh.Raw) []string {
	var d []string
	add := func(n string, x bool) {
		if x {
			d = append(d, n)
		}
	}
	add("PC", a.PC != b.PC)
	add("SP", a.SP != b.SP)
	add("RA", a.RA != b.RA)
	add("RX", a.RX != b.RX)
	add("RY", a.RY != b.RY)
	add("RD", a.RD != b.RD)
	add("RAh", a.RAh != b.RAh)
	add("RAl", a.RAl != b.RAl)
	add("RXl", a.RXl != b.RXl)
	add("RYl", a.RYl != b.RYl)
	add("RDBR", a.RDBR != b.RDBR)
	add("RK", a.RK != b.RK)
	if a.P != b.P {
		d = append(d, fmt.Sprintf("P^%02x", a.P^b.P))
	}
	add("E", a.E != b.E)
	add("Stopped", a.Stopped != b.Stopped)
	add("Interrupt", a.Interrupt != b.Interrupt)
	add("AllCycles", a.AllCycles != b.AllCycles)
	return d
}

func lockstepDiff(p, a implResult, pw, aw []cpuh.Cell) []string {
	if (p.panic != nil) != (a.panic != nil) {
		if p.panic != nil {
			return []string{fmt.Sprintf("only cpu65c816 panics (%v)", p.panic)}
		}
		return []string{fmt.Sprintf("only cpualt panics (%v)", a.panic)}
	}
	if p.panic != nil {
		return nil // both fail: not a difference between them (C08 judges the failure)
	}
	d := rawDiff(p.raw, a.raw)
	if p.cycles != a.cycles {
		d = append(d, fmt.Sprintf("cycles %d/%d", p.cycles, a.cycles))
	}
	if p.stopped != a.stopped {
		d = append(d, "stopped-result")
	}
	if !cpuh.SameWrites(pw, aw) {
		d = append(d, "MEM")
	}
	return d
}

// readSeqDiff: the two interpreters must issue the same bus reads in the same order (a location may be a
// hardware register whose value depends on how often and in which order it is read)
func readSeqDiff(p, a []uint32) string {
	if len(p) != len(a) {
		return fmt.Sprintf("cpu65c816 reads %06x, cpualt reads %06x", p, a)
	}
	for i := range p {
		if p[i] != a[i] {
			return fmt.Sprintf("read #%d: cpu65c816 $%06x, cpualt $%06x (cpu65c816 reads %06x, cpualt %06x)", i, p[i], a[i], p, a)
		}
	}
	return ""
}

func c02Check(x *cpuCtx, c *cpuCase) (sig, what string, nontrivial bool) {
	x.buildImage(c)
	p := x.runImpl(0, c)
	a := x.runImpl(1, c)
	e := ref65816.Table[c.Op]
	nontrivial = len(x.ms[0].Mem().Writes) > 0 || p.raw.SP != c.S.S || p.raw.P != c.S.P || p.raw.RA != mkRaw(c.S, c.Stale, c.Int).RA
	d := lockstepDiff(p, a, x.ms[0].Mem().Writes, x.ms[1].Mem().Writes)
	if len(d) == 0 {
		if p.panic == nil {
			if rd := readSeqDiff(x.ms[0].Mem().Reads, x.ms[1].Mem().Reads); rd != "" {
				return fmt.Sprintf("unexplained:reads-differ:%s:%s", e.Mn, modeName[e.Mode]), fmt.Sprintf("same result, but the interpreters read the bus differently during %s %s: %s | case %s", e.Mn, modeName[e.Mode], rd, c.String()), nontrivial
			}
		}
		return "", "", nontrivial
	}
	return fmt.Sprintf("unexplained:differ:%s:%s", e.Mn, modeName[e.Mode]),
		fmt.Sprintf("interpreters differ after %s %s in %s | case %s | cpu65c816 %v (cycles %d) | cpualt %v (cycles %d)", e.Mn, modeName[e.Mode], strings.Join(d, ","), c.String(), p.raw, p.cycles, a.raw, a.cycles), nontrivial
}

func c02ProgOracle(e *progEnv, res *progStepResult) (sig, what string, descend bool) {
	mn := ref65816.Table[res.bytes[0]].Mn
	d := lockstepDiff(res.post[0], res.post[1], e.x.ms[0].Mem().Writes, e.x.ms[1].Mem().Writes)
	if len(d) > 0 {
		return "unexplained:program:differ:" + mn, fmt.Sprintf("interpreters differ after %v from seed state %d in %s | cpu65c816 %v | cpualt %v", e.pathNames(), e.seed, strings.Join(d, ","), res.post[0].raw, res.post[1].raw), false
	}
	if res.post[0].panic == nil {
		if rd := readSeqDiff(e.x.ms[0].Mem().Reads, e.x.ms[1].Mem().Reads); rd != "" {
			return "unexplained:program:reads-differ:" + mn, fmt.Sprintf("same result after %v from seed state %d, but the interpreters read the bus differently: %s", e.pathNames(), e.seed, rd), false
		}
		// Reset from this state: both interpreters must come up identically (the path state is reloaded afterwards)
		var after [2]cpuh.Raw
		var pn [2]interface{}
		for i := 0; i < 2; i++ {
			pn[i] = e.x.ms[i].Reset()
			after[i] = e.x.ms[i].Save()
			e.x.ms[i].Load(e.cur[i])
		}
		if (pn[0] == nil) != (pn[1] == nil) || (pn[0] == nil && after[0] != after[1]) {
			return "unexplained:program:reset-differs", fmt.Sprintf("Reset after %v from seed state %d: cpu65c816 %v (panic %v) | cpualt %v (panic %v)", e.pathNames(), e.seed, after[0], pn[0], after[1], pn[1]), false
		}
	}
	return "", "", res.post[0].panic == nil
}

func c02AgedCheck(x *cpuCtx, c *cpuCase) (string, string) {
	sig, what, _ := c02Check(x, c)
	return sig, what
}

func replayC02(raw json.RawMessage) (string, error) {
	cpuDirtIRQ = true
	cpuChargeMem = true
	if ok, what, err := cpuAgedReplay(raw, c02AgedCheck); ok {
		return what, err
	}
	var pp progPath
	if json.Unmarshal(raw, &pp) == nil && len(pp.Syms) > 0 {
		return progReplay(pp, progSeeds(true), progAlphabetInt(), false, c02ProgOracle)
	}
	var c cpuCase
	if err := json.Unmarshal(raw, &c); err != nil {
		return "", err
	}
	sig, what, _ := c02Check(newCPUCtx(), &c)
	if sig == "" {
		return "both interpreters end in identical raw states with identical cycles and writes", nil
	}
	return what, fmt.Errorf("%s", sig)
}

func runC02(r *report.Run) {
	cpuDirtIRQ = true
	cpuChargeMem = true
	o := cpuSweepOpts{thorough: r.Tier == "thorough", withE: true, withInt: true, seed: r.Seed}
	var nontriv, total int64
	agedSteps := cpuAgedAll(r, o.thorough, true, c02AgedCheck)
	counts := cpuEnumerate(o, nil, func(x *cpuCtx, c *cpuCase) {
		sig, what, nt := c02Check(x, c)
		if nt {
			atomic.AddInt64(&nontriv, 1)
		}
		atomic.AddInt64(&total, 1)
		if sig != "" {
			r.Violation(sig, what, *c)
		}
	})
	depth := 4
	if o.thorough {
		depth = 5
	}
	syms, seeds := progAlphabetInt(), progSeeds(true)
	st, tr := progSearch(depth, seeds, syms, false, 0x51ED270B, progVisitOf(r, 0x51ED270B, c02ProgOracle))
	r.Set("program_search", map[string]interface{}{"depth": depth, "alphabet": len(syms), "seed_states": len(seeds), "distinct_states": st, "steps_executed": tr})
	r.Set("single_step_cases_by_sweep", counts)
	r.Set("single_step_cases", total)
	r.Set("states", total+st)
	r.Set("transitions", total+tr)
	r.Set("traces_validated_against_impl", total+tr)
	r.Set("evaluations", total+tr+agedSteps/2)
	r.Set("distinct_nontrivial", nontriv)
	for i, cs := range cpuSampled {
		if i%8 == 0 {
			r.Sample(cs)
		}
	}
	r.Set("rule", "every case of the five single-step sweeps (with E in {0,1} everywhere, decimal in the operation and flag sweeps, pending interrupt in {0,none,NMI,IRQ} in the flag sweep) and every instruction sequence of the program search (incl. pending NMI/IRQ, IRQ raised through TriggerIRQ, and a Reset from every reached state) is executed on both interpreters from identical raw states and identical images; after each step all exported registers (both copies of A/X/Y), flags, E, Stopped, Interrupt, per-step cycles, AllCycles, the write sets and the sequence of bus reads must be identical; non-trivial = the step wrote memory or changed SP, P or the accumulator")
	r.Assume("no reference model involved: the oracle is raw lockstep equality of the two implementations")
	c := cpuDefaultCase(0xAF)
	c.S.K, c.S.PC = 2, 0xFFFD
	r.Sample(c.String())
}
