package checks

import (
	"fmt"
	"math/bits"
	"strings"
	"sync/atomic"

	"verif/internal/cpuh"
	"verif/internal/par"
	"verif/internal/ref65816"
	"verif/internal/report"
)

// ---- program search: explicit-state DFS over instruction sequences (DESIGN §3.5)
//
// A transition is "place instruction bytes at K:PC in every machine's memory and Step once".
// All sequences up to the depth bound are executed on the real interpreters (and on the
// reference model when the oracle wants it), with save/restore of the raw CPU state and of
// the sparse memory (truncation of the append-only override list).

type progSym struct {
	name string
	gen  func(p byte) []byte // instruction bytes given the current status register
}

// symIntr: pending interrupt a symbol raises before its step (0 none, 2 NMI, 3 IRQ); lockstep searches only
func symIntr(name string) byte {
	switch {
	case strings.HasPrefix(name, "NMI pending"):
		return 2
	case strings.HasPrefix(name, "IRQ pending"):
		return 3
	case strings.HasPrefix(name, "TriggerIRQ()"):
		return 4 // raised through the interpreter's own TriggerIRQ (which looks at the I flag)
	}
	return 0
}

func immM(op byte, lo, hi byte) func(p byte) []byte {
	return func(p byte) []byte {
		if p&ref65816.FM != 0 {
			return []byte{op, lo}
		}
		return []byte{op, lo, hi}
	}
}
func immX(op byte, lo, hi byte) func(p byte) []byte {
	return func(p byte) []byte {
		if p&ref65816.FX != 0 {
			return []byte{op, lo}
		}
		return []byte{op, lo, hi}
	}
}
func fixed(b ...byte) func(p byte) []byte { return func(byte) []byte { return b } }

func progAlphabet(withDecimal bool) []progSym {
	s := []progSym{
		{"REP #$10", fixed(0xC2, 0x10)}, {"REP #$20", fixed(0xC2, 0x20)}, {"REP #$30", fixed(0xC2, 0x30)},
		{"SEP #$10", fixed(0xE2, 0x10)}, {"SEP #$20", fixed(0xE2, 0x20)}, {"SEP #$30", fixed(0xE2, 0x30)},
		{"XCE", fixed(0xFB)}, {"SEC", fixed(0x38)}, {"CLC", fixed(0x18)},
		{"PHP", fixed(0x08)}, {"PLP", fixed(0x28)}, {"RTI", fixed(0x40)},
		{"LDA #$1280", immM(0xA9, 0x80, 0x12)}, {"LDA #$0001", immM(0xA9, 0x01, 0x00)},
		{"LDX #$34FF", immX(0xA2, 0xFF, 0x34)}, {"LDY #$8002", immX(0xA0, 0x02, 0x80)},
		{"TAX", fixed(0xAA)}, {"TXA", fixed(0x8A)}, {"TXY", fixed(0x9B)}, {"TYX", fixed(0xBB)}, {"TAY", fixed(0xA8)}, {"TYA", fixed(0x98)},
		{"XBA", fixed(0xEB)}, {"TCD", fixed(0x5B)}, {"TCS", fixed(0x1B)}, {"TSX", fixed(0xBA)}, {"TXS", fixed(0x9A)}, {"TDC", fixed(0x7B)},
		{"PHA", fixed(0x48)}, {"PLA", fixed(0x68)}, {"PHX", fixed(0xDA)}, {"PLX", fixed(0xFA)}, {"PHD", fixed(0x0B)}, {"PLD", fixed(0x2B)}, {"PHB", fixed(0x8B)}, {"PLB", fixed(0xAB)},
		{"INX", fixed(0xE8)}, {"DEX", fixed(0xCA)}, {"INC A", fixed(0x1A)}, {"DEC A", fixed(0x3A)},
		{"STA $FF", fixed(0x85, 0xFF)}, {"LDA $FF", fixed(0xA5, 0xFF)}, {"STA $FFFF,X", fixed(0x9D, 0xFF, 0xFF)}, {"LDA $FFFF,X", fixed(0xBD, 0xFF, 0xFF)},
		{"STA ($FE),Y", fixed(0x91, 0xFE)}, {"LDA [$FE],Y", fixed(0xB7, 0xFE)},
		{"MVN $7E,$7F", fixed(0x54, 0x7E, 0x7F)}, {"MVP $00,$7E", fixed(0x44, 0x00, 0x7E)},
		{"BRA +2", fixed(0x80, 0x02)}, {"BNE -4", fixed(0xD0, 0xFC)}, {"BCS +127", fixed(0xB0, 0x7F)},
		{"JSR $9000", fixed(0x20, 0x00, 0x90)}, {"RTS", fixed(0x60)}, {"JSL $7E2000", fixed(0x22, 0x00, 0x20, 0x7E)}, {"RTL", fixed(0x6B)},
		{"JMP ($FFFF,X)", fixed(0x7C, 0xFF, 0xFF)}, {"PEA $1234", fixed(0xF4, 0x34, 0x12)}, {"PER -1", fixed(0x62, 0xFF, 0xFF)},
		{"WDM #$42", fixed(0x42, 0x42)}, {"STP", fixed(0xDB)}, {"NOP", fixed(0xEA)},
		{"ADC #$7F01", immM(0x69, 0x01, 0x7F)}, {"CPX #$00FF", immX(0xE0, 0xFF, 0x00)},
	}
	if withDecimal {
		s = append(s, progSym{"SED", fixed(0xF8)}, progSym{"SBC #$0199", immM(0xE9, 0x99, 0x01)}, progSym{"ADC #$1299", immM(0x69, 0x99, 0x12)}, progSym{"LDA #$0905", immM(0xA9, 0x05, 0x09)})
	}
	return s
}

// progAlphabetInt is the lockstep alphabet: decimal arithmetic plus pending interrupts.
func progAlphabetInt() []progSym {
	s := progAlphabet(true)
	return append(s,
		progSym{"NMI pending; NOP", fixed(0xEA)},
		progSym{"IRQ pending; NOP", fixed(0xEA)},
		progSym{"TriggerIRQ(); NOP", fixed(0xEA)},
		progSym{"CLI", fixed(0x58)})
}

type progSeed struct {
	s     ref65816.State
	stale int
}

func progSeeds(withE bool) []progSeed {
	s := []progSeed{
		{ref65816.State{C: 0x1234, X: 0xABCD, Y: 0x5678, S: 0x01FF, D: 0x0000, DBR: 0x7E, K: 0x00, PC: 0x8000, P: 0x00}, 0},
		{ref65816.State{C: 0x12FF, X: 0x00CD, Y: 0x0001, S: 0x01FF, D: 0x0000, DBR: 0x00, K: 0x00, PC: 0x8000, P: 0x30}, 0},
		{ref65816.State{C: 0x0002, X: 0x00FF, Y: 0x00FE, S: 0x0001, D: 0x00FF, DBR: 0xFF, K: 0x01, PC: 0xFFFC, P: 0x10}, 2},
		{ref65816.State{C: 0x8001, X: 0xFFFF, Y: 0x0000, S: 0xFFFF, D: 0xFF01, DBR: 0x7F, K: 0x7E, PC: 0x00FE, P: 0x21}, 1},
		{ref65816.State{C: 0xFFFF, X: 0x0080, Y: 0x007F, S: 0x0100, D: 0x0100, DBR: 0x01, K: 0xFF, PC: 0xFFFE, P: 0x30}, 1},
		{ref65816.State{C: 0x0000, X: 0x0000, Y: 0x0000, S: 0x01FF, D: 0x0000, DBR: 0x00, K: 0x00, PC: 0xFFFD, P: 0xCF}, 2},
	}
	if withE {
		s = append(s,
			progSeed{ref65816.State{C: 0x12FF, X: 0x00CD, Y: 0x0001, S: 0x01FF, D: 0x0000, DBR: 0x00, K: 0x00, PC: 0x8000, P: 0x30, E: true}, 0},
			progSeed{ref65816.State{C: 0x8001, X: 0x00FF, Y: 0x0000, S: 0x0100, D: 0x00FF, DBR: 0x7E, K: 0x01, PC: 0xFFFE, P: 0x3B, E: true}, 1})
	}
	return s
}

type progStepResult struct {
	sym    int
	bytes  []byte
	at     uint32 // K:PC the instruction was placed at
	pre    [2]cpuh.Raw
	post   [2]implResult
	refPre ref65816.State
	want   ref65816.State
	care   ref65816.Care
}

type progEnv struct {
	x      *cpuCtx
	syms   []progSym
	useRef bool
	// ownPC: each interpreter gets the next instruction planted at ITS OWN program counter in its own
	// memory (for oracles that judge each interpreter by itself, C12): an interpreter whose registers
	// went astray earlier -- some other property's business -- still executes the path's instructions.
	ownPC  bool
	cur    [2]cpuh.Raw
	ref    ref65816.State
	path   []int
	seed   int
	seedSt progSeed
	steps  int64
	res    progStepResult // scratch, reused by exec
}

func (e *progEnv) reset(seedIdx int, sd progSeed, memSeed uint32) {
	e.seed, e.seedSt = seedIdx, sd
	st := sd.s
	c := cpuCase{S: st}
	c.normalise()
	raw := mkRaw(c.S, sd.stale, 0)
	e.cur = [2]cpuh.Raw{raw, raw}
	e.ref = c.S
	for i := 0; i < 2; i++ {
		m := e.x.ms[i].Mem()
		m.Seed = memSeed
		m.Ov = m.Ov[:0]
		m.ClearLog()
	}
	e.x.ref.Seed = memSeed
	e.x.ref.Ov = e.x.ref.Ov[:0]
	e.x.ref.ClearLog()
	e.path = e.path[:0]
}

type progSnap struct {
	cur  [2]cpuh.Raw
	ref  ref65816.State
	nOv  [3]int
	path int
}

func (e *progEnv) save() progSnap {
	return progSnap{e.cur, e.ref, [3]int{len(e.x.ms[0].Mem().Ov), len(e.x.ms[1].Mem().Ov), len(e.x.ref.Ov)}, len(e.path)}
}
func (e *progEnv) restore(s progSnap) {
	e.cur, e.ref = s.cur, s.ref
	e.x.ms[0].Mem().Ov = e.x.ms[0].Mem().Ov[:s.nOv[0]]
	e.x.ms[1].Mem().Ov = e.x.ms[1].Mem().Ov[:s.nOv[1]]
	e.x.ref.Ov = e.x.ref.Ov[:s.nOv[2]]
	e.path = e.path[:s.path]
}

// exec places symbol si at the current K:PC and steps every machine once.
func (e *progEnv) exec(si int) *progStepResult {
	res := &e.res
	*res = progStepResult{}
	res.sym = si
	p := e.cur[0].P
	k, pc := e.cur[0].RK, e.cur[0].PC
	if e.useRef {
		p, k, pc = e.ref.P, e.ref.K, e.ref.PC
	}
	res.bytes = e.syms[si].gen(p)
	res.at = uint32(k)<<16 | uint32(pc)
	mems := [3]*cpuh.Mem{e.x.ms[0].Mem(), e.x.ms[1].Mem(), &e.x.ref}
	for mi, m := range mems {
		mk, mpc := k, pc
		if e.ownPC && mi < 2 {
			mk, mpc = e.cur[mi].RK, e.cur[mi].PC
		}
		for i, b := range res.bytes {
			m.Set(uint32(mk)<<16|uint32(mpc+uint16(i)), b)
		}
		m.ClearLog()
	}
	res.pre = e.cur
	for i := 0; i < 2; i++ {
		m := e.x.ms[i]
		pre := e.cur[i]
		in := symIntr(e.syms[si].name)
		if in == 2 || in == 3 {
			pre.Interrupt = in
		}
		m.Load(pre)
		if in == 4 {
			m.TriggerIRQ()
		}
		cy, st, pn := m.Step()
		res.post[i] = implResult{m.Save(), cy, st, pn}
		e.cur[i] = res.post[i].raw
	}
	if e.useRef {
		res.refPre = e.ref
		res.care = ref65816.Step(&e.ref, &e.x.ref)
		res.want = e.ref
	}
	e.path = append(e.path, si)
	e.steps++
	return res
}

func (e *progEnv) pathNames() []string {
	var n []string
	for _, s := range e.path {
		n = append(n, e.syms[s].name)
	}
	return n
}

// stateHash: canonical raw state of the primary machine + its memory overrides (last write wins,
// cells equal to the base image dropped).
func (e *progEnv) stateHash() uint64 {
	h := uint64(1469598103934665603)
	mix := func(v uint64) { h ^= v; h *= 1099511628211 }
	r := e.cur[0]
	mix(uint64(r.PC) | uint64(r.SP)<<16 | uint64(r.RA)<<32 | uint64(r.RX)<<48)
	mix(uint64(r.RY) | uint64(r.RD)<<16 | uint64(r.RAh)<<32 | uint64(r.RAl)<<40 | uint64(r.RXl)<<48 | uint64(r.RYl)<<56)
	mix(uint64(r.RDBR) | uint64(r.RK)<<8 | uint64(r.P)<<16 | uint64(r.E)<<24)
	if r.Stopped {
		mix(0x5151)
	}
	m := e.x.ms[0].Mem()
	var acc uint64
	for i := len(m.Ov) - 1; i >= 0; i-- {
		c := m.Ov[i]
		dup := false
		for j := len(m.Ov) - 1; j > i; j-- {
			if m.Ov[j].A == c.A {
				dup = true
				break
			}
		}
		if dup || m.Base(c.A) == c.V {
			continue
		}
		x := (uint64(c.A)<<8 | uint64(c.V)) * 0x9E3779B97F4A7C15
		acc += x ^ x>>29
	}
	mix(acc)
	return h
}

type progPath struct {
	Seed    int      `json:"seed_state"`
	MemSeed uint32   `json:"mem_seed"`
	Syms    []string `json:"instructions"`
}

type progOpt int

const progOwnPC progOpt = 1

func hasProgOpt(opts []progOpt, o progOpt) bool {
	for _, x := range opts {
		if x == o {
			return true
		}
	}
	return false
}

type progVisit func(e *progEnv, res *progStepResult) (descend bool)

// progSearch runs the DFS to the given depth from every seed state, sharded over workers by
// (seed, first symbol, second symbol). Returns distinct states and transitions executed.
func progSearch(depth int, seeds []progSeed, syms []progSym, useRef bool, memSeed uint32, visit progVisit, opts ...progOpt) (states, transitions int64) {
	type job struct{ seed, s1, s2 int }
	var jobs []job
	for sd := range seeds {
		for a := range syms {
			if depth >= 2 {
				for b := range syms {
					jobs = append(jobs, job{sd, a, b})
				}
			} else {
				jobs = append(jobs, job{sd, a, -1})
			}
		}
	}
	envs := make([]*progEnv, par.Workers())
	// distinct states are counted with a 2^31-bit set indexed by the state hash (bounded memory; hash
	// collisions can only make the count smaller, so it is a lower bound on the distinct states)
	const setBits = 1 << 31
	seen := make([]uint64, setBits/64)
	note := func(h uint64) {
		i := h % setBits
		w := &seen[i/64]
		bit := uint64(1) << (i % 64)
		for {
			old := atomic.LoadUint64(w)
			if old&bit != 0 || atomic.CompareAndSwapUint64(w, old, old|bit) {
				return
			}
		}
	}
	var trans int64
	par.For(len(jobs), func(w, ji int) {
		if envs[w] == nil {
			envs[w] = &progEnv{x: newCPUCtx(), syms: syms, useRef: useRef, ownPC: hasProgOpt(opts, progOwnPC)}
		}
		e := envs[w]
		j := jobs[ji]
		e.reset(j.seed, seeds[j.seed], memSeed)
		e.steps = 0
		var dfs func(d int)
		dfs = func(d int) {
			for si := range syms {
				snap := e.save()
				res := e.exec(si)
				ok := visit(e, res)
				note(e.stateHash())
				if ok && d > 1 {
					dfs(d - 1)
				}
				e.restore(snap)
			}
		}
		// first symbol: its oracle verdict is evaluated only in the job with s2 == 0 (or depth 1)
		res := e.exec(j.s1)
		ok := true
		if j.s2 <= 0 {
			ok = visit(e, res)
			note(e.stateHash())
		} else {
			ok = res.post[0].panic == nil && res.post[1].panic == nil
			if ok {
				ok = progQuietOK(e, res, visit)
			}
		}
		if ok && j.s2 >= 0 {
			res2 := e.exec(j.s2)
			ok2 := visit(e, res2)
			note(e.stateHash())
			if ok2 && depth > 2 {
				dfs(depth - 2)
			}
		}
		atomic.AddInt64(&trans, e.steps)
	})
	for _, w := range seen {
		states += int64(bits.OnesCount64(w))
	}
	return states, trans
}

func progQuietOK(e *progEnv, res *progStepResult, visit progVisit) bool {
	// visit is side-effecting (reports violations); violations are de-duplicated by signature in
	// the report, so calling it again is harmless and keeps one code path.
	return visit(e, res)
}

// progOracle judges one executed step: a non-empty sig is a violation.
type progOracle func(e *progEnv, res *progStepResult) (sig, what string, descend bool)

func progVisitOf(r *report.Run, memSeed uint32, o progOracle) progVisit {
	return func(e *progEnv, res *progStepResult) bool {
		sig, what, descend := o(e, res)
		if sig != "" {
			r.ViolationSized(sig, what, progPath{e.seed, memSeed, e.pathNames()}, len(e.path))
			return false
		}
		return descend
	}
}

// progReplay re-executes a recorded path and returns the oracle's verdict on its last step
// (or on the first violating step).
func progReplay(p progPath, seeds []progSeed, syms []progSym, useRef bool, o progOracle, opts ...progOpt) (string, error) {
	if p.Seed < 0 || p.Seed >= len(seeds) {
		return "", fmt.Errorf("bad seed state %d", p.Seed)
	}
	e := &progEnv{x: newCPUCtx(), syms: syms, useRef: useRef, ownPC: hasProgOpt(opts, progOwnPC)}
	e.reset(p.Seed, seeds[p.Seed], p.MemSeed)
	last := "empty path"
	for _, name := range p.Syms {
		si := -1
		for k := range syms {
			if syms[k].name == name {
				si = k
			}
		}
		if si < 0 {
			return "", fmt.Errorf("unknown instruction symbol %q", name)
		}
		res := e.exec(si)
		sig, what, _ := o(e, res)
		if sig != "" {
			return what, fmt.Errorf("%s", sig)
		}
		last = fmt.Sprintf("after %v: pri %v | alt %v", e.pathNames(), res.post[0].raw, res.post[1].raw)
	}
	return last, nil
}

// ---------------------------------------------------------------- C01 oracle

func c01ProgOracle(e *progEnv, res *progStepResult) (sig, what string, descend bool) {
	mn := ref65816.Table[res.bytes[0]].Mn
	for i := 0; i < 2; i++ {
		mem := e.x.ms[i].Mem()
		var d []string
		if res.post[i].panic != nil {
			d = []string{"PANIC"}
		} else {
			d = archDiff(mn, alpha(res.post[i].raw), res.want, res.care, mem.Writes, e.x.ref.Writes)
			if mem.Bad {
				d = append(d, "ADDR>=2^24")
			}
		}
		if len(d) > 0 {
			name := e.x.ms[i].Name()
			return fmt.Sprintf("unexplained:program:%s:%s", name, mn),
				fmt.Sprintf("%s after %v from seed state %d: differs in %v | want %+v | got %+v", name, e.pathNames(), e.seed, d, res.want, alpha(res.post[i].raw)), false
		}
	}
	if res.care.Loose || res.care.IgnoreA || res.want.E {
		return "", "", false // STP/WAI, invalid BCD: the successor is not fully specified; E=1 is outside C01
	}
	if res.care.IgnoreP != 0 {
		// valid-BCD decimal arithmetic leaves only V open: adopt the implementation's V and go on, unless
		// the two interpreters disagree about it (that is C02's business)
		if (res.post[0].raw.P^res.post[1].raw.P)&res.care.IgnoreP != 0 {
			return "", "", false
		}
		e.ref.P = e.ref.P&^res.care.IgnoreP | res.post[0].raw.P&res.care.IgnoreP
	}
	return "", "", true
}

func c01Programs(r *report.Run, o cpuSweepOpts) (states, transitions int64) {
	depth := 4
	if o.thorough {
		depth = 5
	}
	syms := progAlphabet(true)
	seeds := progSeeds(false)
	st, tr := progSearch(depth, seeds, syms, true, 0x9E3779B9, progVisitOf(r, 0x9E3779B9, c01ProgOracle))
	r.Set("program_search", map[string]interface{}{"depth": depth, "alphabet": len(syms), "seed_states": len(seeds), "distinct_states": st, "steps_executed": tr})
	return st, 2 * tr
}
