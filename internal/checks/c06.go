package checks

import (
	"bytes"
	"encoding/json"
	"fmt"
	"strings"
	"sync/atomic"

	"github.com/alttpo/snes/asm"

	"verif/internal/par"
	"verif/internal/report"
)

func init() {
	Registry["C06"] = Check{Level: "model_checking", Run: runC06, Replay: replayC06}
}

// c06Steps applies the calls to the real emitter, recording what it did (observeStep), under C06's own
// per-call rule: a label can be defined once -- the first definition is accepted, a second one is
// refused and changes nothing. Whether other calls are accepted is not C06's business.
func c06Steps(e *asm.Emitter, om *asmModel, ops []asmOp, first int) string {
	for i, op := range ops {
		var before asmObs
		defined := false
		if op.kind == itLabel {
			_, defined = om.labels[op.text]
			before = observe(e, asmLabelNames)
		}
		pn := observeStep(e, om, op)
		if op.kind != itLabel {
			continue
		}
		switch {
		case defined && pn == nil:
			return fmt.Sprintf("call #%d %s: the label is already defined at $%06x, a second definition must be refused", first+i, op.name, om.labels[op.text])
		case !defined && pn != nil:
			return fmt.Sprintf("call #%d %s: the first definition of the label was refused: %v", first+i, op.name, pn)
		case pn != nil && !observe(e, asmLabelNames).equal(before):
			return fmt.Sprintf("call #%d %s was refused (%v) but changed the emitter", first+i, op.name, pn)
		}
	}
	return ""
}

// c06History: the calls on a fresh real emitter, then Finalize twice against the resolution computed
// from what the emitter itself built (positions of labels and of reference operands in Bytes()).
func c06History(v asmVariant, capacity int, ops []asmOp) string {
	e := newRealEmitter(v, capacity)
	om := newModelFor(v, capacity)
	if d := c06Steps(e, om, ops, 0); d != "" {
		return d
	}
	return checkFinalize(e, om)
}

// c06HistoryMidFinalize is c06History with one successful Finalize inserted after the first k calls:
// references added after a Finalize must still be resolved by the next one, and a Finalize in the
// middle must not disturb later emission. skipped=true when the inserted Finalize has to fail (the
// emitter's state after a failed Finalize depends on map order).
func c06HistoryMidFinalize(v asmVariant, capacity int, ops []asmOp, k int) (diff string, skipped bool) {
	e := newRealEmitter(v, capacity)
	om := newModelFor(v, capacity)
	if d := c06Steps(e, om, ops[:k], 0); d != "" {
		return d, false
	}
	om.bytes = append(om.bytes[:0], e.Bytes()...)
	f := om.finalize()
	if !f.ok {
		return "", true
	}
	var err error
	var pn interface{}
	func() {
		defer func() { pn = recover() }()
		err = e.Finalize()
	}()
	if pn != nil || err != nil {
		return fmt.Sprintf("Finalize after call #%d: err=%v panic=%v, but every reference is resolvable and in range", k-1, err, pn), false
	}
	if !bytes.Equal(e.Bytes(), f.patched) {
		return fmt.Sprintf("after the Finalize following call #%d bytes are % x, want % x", k-1, e.Bytes(), f.patched), false
	}
	om.bytes = f.patched
	om.refs = nil
	if d := c06Steps(e, om, ops[k:], k); d != "" {
		return "(after a Finalize following call #" + fmt.Sprint(k-1) + ") " + d, false
	}
	if d := checkFinalize(e, om); d != "" {
		return "(after a Finalize following call #" + fmt.Sprint(k-1) + ") " + d, false
	}
	return "", false
}

// errNamesLegitimately: does the Finalize error text name something that really is wrong?
func errNamesLegitimately(err error, f asmFinal) bool {
	t := err.Error()
	for _, r := range f.unresolved {
		if strings.Contains(t, "'"+r.label+"'") || strings.Contains(t, "\""+r.label+"\"") || strings.Contains(t, " "+r.label) {
			return true
		}
	}
	return false
}

func errNamesRange(err error, f asmFinal, m *asmModel) bool {
	t := strings.ToLower(err.Error())
	for _, r := range f.outOfRange {
		to := m.labels[r.label]
		d := int(to) - int(r.operand+1)
		if strings.Contains(t, fmt.Sprintf("diff=%d", d)) || (strings.Contains(t, fmt.Sprintf("%x", r.operand+1)) && strings.Contains(t, fmt.Sprintf("%x", to))) || strings.Contains(t, "'"+r.label+"'") {
			return true
		}
	}
	return false
}

// checkFinalize runs Finalize (twice) on e and compares with the model's resolution.
func checkFinalize(e *asm.Emitter, m *asmModel) string {
	emitted := append([]byte(nil), e.Bytes()...)
	m.bytes = append([]byte(nil), emitted...)
	f := m.finalize()
	pre := observe(e, nil)
	for round := 1; round <= 2; round++ {
		var err error
		var pn interface{}
		func() {
			defer func() { pn = recover() }()
			err = e.Finalize()
		}()
		if pn != nil {
			return fmt.Sprintf("Finalize #%d panicked: %v", round, pn)
		}
		got := e.Bytes()
		if len(got) != len(emitted) {
			return fmt.Sprintf("Finalize #%d changed Len() from %d to %d", round, len(emitted), len(got))
		}
		if f.ok != (err == nil) {
			return fmt.Sprintf("Finalize #%d returned %v; model: unresolved %v, out of range %v", round, err, f.unresolved, f.outOfRange)
		}
		if err == nil {
			if !bytes.Equal(got, f.patched) {
				return fmt.Sprintf("after successful Finalize #%d bytes are % x, want % x", round, got, f.patched)
			}
		} else {
			if !errNamesLegitimately(err, f) && !errNamesRange(err, f, m) {
				return fmt.Sprintf("Finalize #%d error %q names nothing that is unresolved (%v) or out of range (%v)", round, err, f.unresolved, f.outOfRange)
			}
			for i := range got {
				if got[i] == emitted[i] {
					continue
				}
				if !f.operandPos[i] {
					return fmt.Sprintf("failed Finalize #%d changed byte %d (% x -> % x), which is not an operand byte of a label reference", round, i, emitted[i], got[i])
				}
				if v, ok := f.resolved[i]; !ok || got[i] != v {
					return fmt.Sprintf("failed Finalize #%d left operand byte %d = %02x, neither the emitted placeholder nor the resolved value", round, i, got[i])
				}
			}
		}
		if d := observe(e, nil); d.pc != pre.pc || d.flags != pre.flags {
			return fmt.Sprintf("Finalize #%d changed PC/flags", round)
		}
	}
	return ""
}

func c06Run(h asmHistory) (sig, what string) {
	ops, err := opsByName(h.Ops)
	if err != nil {
		return "bad-case", err.Error()
	}
	if d := c06History(h.Variant, h.Capacity, ops); d != "" {
		return "unexplained:finalize", fmt.Sprintf("%+v %v: %s", h.Variant, h.Ops, d)
	}
	if !h.Variant.Listing {
		for k := 1; k < len(ops); k++ {
			if d, skipped := c06HistoryMidFinalize(h.Variant, h.Capacity, ops, k); !skipped && d != "" {
				return "unexplained:finalize-mid-history", fmt.Sprintf("%+v %v with Finalize after call #%d: %s", h.Variant, h.Ops, k-1, d)
			}
		}
	}
	return "", ""
}

// ---- distance sweep (pads are not history symbols)

type c06Dist struct {
	Variant  asmVariant `json:"variant"`
	Branch   string     `json:"branch"`
	Distance int        `json:"distance"` // label - (operand address + 1)
	Refs     int        `json:"refs"`
	Extra    string     `json:"extra"` // "", "unresolved", "out-of-range"
	// Name: index into c06LabelNames of the label the swept references use (0 = "t")
	Name int `json:"name,omitempty"`
}

// label names are the caller's: empty, with spaces and quotes, with format verbs, long
var c06LabelNames = []string{"t", "", "two words 'q' \"dq\"", "%s%d%!x", "a_rather_long_label_name_that_does_not_fit_any_column_of_the_listing"}

var c06Branches = map[string]struct {
	op   byte
	s8   bool
	call func(e *asm.Emitter, l string)
}{
	"BNE": {0xD0, true, func(e *asm.Emitter, l string) { e.BNE(l) }}, "BEQ": {0xF0, true, func(e *asm.Emitter, l string) { e.BEQ(l) }},
	"BPL": {0x10, true, func(e *asm.Emitter, l string) { e.BPL(l) }}, "BMI": {0x30, true, func(e *asm.Emitter, l string) { e.BMI(l) }},
	"BCC": {0x90, true, func(e *asm.Emitter, l string) { e.BCC(l) }}, "BCS": {0xB0, true, func(e *asm.Emitter, l string) { e.BCS(l) }},
	"BRA": {0x80, true, func(e *asm.Emitter, l string) { e.BRA(l) }}, "JMP": {0x4C, false, func(e *asm.Emitter, l string) { e.JMP_abs(l) }},
}

func c06DistRun(c c06Dist) (sig, what string) {
	br, ok := c06Branches[c.Branch]
	if !ok || c.Name < 0 || c.Name >= len(c06LabelNames) {
		return "bad-case", "unknown branch or label name"
	}
	tname := c06LabelNames[c.Name]
	room := 2048
	if c.Distance > 1000 || c.Distance < -1000 {
		room = 66200 // far distances: a program that fills (almost) a whole bank
	}
	e := newRealEmitter(c.Variant, room)
	m := newModelFor(c.Variant, room)
	var pn interface{}
	func() {
		defer func() { pn = recover() }()
		pad := func(n int) {
			lb := e.Len()
			e.EmitBytes(dataBlock(n))
			m.record(itData, "", false, "", false, lb, e)
		}
		ref := func(l string) {
			lb := e.Len()
			br.call(e, l)
			m.record(itInstr, "", true, l, br.s8, lb, e)
		}
		label := func(l string) {
			lb := e.Len()
			e.Label(l)
			m.record(itLabel, l, false, "", false, lb, e)
		}
		ilen := 2
		if !br.s8 {
			ilen = 3
		}
		if c.Distance >= 0 {
			// forward: refs first (the last one is at the requested distance), then pad, then label
			for i := 0; i < c.Refs; i++ {
				ref(tname)
			}
			pad(c.Distance)
			label(tname)
		} else {
			// backward: label, pad, refs (the first one is at the requested distance)
			label(tname)
			p := -c.Distance - ilen
			if p < 0 {
				return
			}
			pad(p)
			for i := 0; i < c.Refs; i++ {
				ref(tname)
			}
		}
		switch c.Extra {
		case "unresolved":
			ref("nowhere")
		case "out-of-range":
			label("far")
			pad(200)
			lb := e.Len()
			e.BNE("far")
			m.record(itInstr, "", true, "far", true, lb, e)
		}
	}()
	if pn != nil {
		return "unexplained:distance-sweep", fmt.Sprintf("%+v: building the program panicked: %v", c, pn)
	}
	if d := checkFinalize(e, m); d != "" {
		return "unexplained:distance-sweep", fmt.Sprintf("%+v: %s", c, d)
	}
	return "", ""
}

func replayC06(raw json.RawMessage) (string, error) {
	var d c06Dist
	if json.Unmarshal(raw, &d) == nil && d.Branch != "" {
		sig, what := c06DistRun(d)
		if sig == "" {
			return "Finalize agrees with the model", nil
		}
		return what, fmt.Errorf("%s", sig)
	}
	var h asmHistory
	if err := json.Unmarshal(raw, &h); err != nil {
		return "", err
	}
	sig, what := c06Run(h)
	if sig == "" {
		return "every call and Finalize agree with the model", nil
	}
	return what, fmt.Errorf("%s", sig)
}

// asmHistorySearch runs f on every history (all variants x all sequences up to depth), sharded by
// (variant, first op). f returns a violation description or "".
func asmHistorySearch(depth int, variants []asmVariant, f func(v asmVariant, al []asmOp, idx []int) (sig, what string, states int, rep *asmHistory), r *report.Run, capacity int, extra ...asmOp) (histories, transitions, states int64) {
	al := append(asmAlphabet(), extra...)
	type job struct {
		v             asmVariant
		first, second int
	}
	var jobs []job
	for _, v := range variants {
		for i := range al {
			jobs = append(jobs, job{v, i, -1})
			if depth >= 2 {
				for k := range al {
					jobs = append(jobs, job{v, i, k})
				}
			}
		}
	}
	par.For(len(jobs), func(_, ji int) {
		j := jobs[ji]
		var rec func(p []int, d int)
		rec = func(p []int, d int) {
			sig, what, st, rep := f(j.v, al, p)
			atomic.AddInt64(&histories, 1)
			if st < 1 {
				st = 1
			}
			atomic.AddInt64(&transitions, int64(len(p))*int64(st)) // every case replays the whole history on fresh objects
			atomic.AddInt64(&states, int64(st))
			if sig != "" {
				h := asmHistory{Variant: j.v, Ops: historyNames(al, p), Capacity: capacity}
				if rep != nil {
					h = *rep
				}
				r.ViolationSized(sig, what, h, len(p))
			}
			if d == 0 {
				return
			}
			for i := range al {
				rec(append(p, i), d-1)
			}
		}
		p := append(make([]int, 0, depth), j.first)
		if j.second < 0 {
			rec(p, 0) // the length-1 history itself
			return
		}
		rec(append(p, j.second), depth-2)
	})
	return
}

func runC06(r *report.Run) {
	thorough := r.Tier == "thorough"
	depth := 4
	if thorough {
		depth = 5
	}
	variants := asmVariants()
	// long programs (120 and 300 calls) under every variant
	for _, v := range variants {
		for salt, n := range []int{120, 300} {
			ops := asmLongProgram(n, salt)
			if d := c06History(v, 16384, ops); d != "" {
				r.ViolationSized("unexplained:finalize", fmt.Sprintf("%+v long program (%d calls, salt %d): %s", v, n, salt, d), asmHistory{Variant: v, Ops: opNames(ops), Capacity: 16384}, n)
			}
		}
	}
	hist, trans, _ := asmHistorySearch(depth, variants, func(v asmVariant, al []asmOp, idx []int) (string, string, int, *asmHistory) {
		ops := make([]asmOp, len(idx))
		for i, k := range idx {
			ops[i] = al[k]
		}
		if d := c06History(v, 256, ops); d != "" {
			return "unexplained:finalize", fmt.Sprintf("%+v %v: %s", v, historyNames(al, idx), d), 1, nil
		}
		n := 1
		if !v.Listing {
			// the same history with a (successful) Finalize inserted after each proper prefix
			for k := 1; k < len(ops); k++ {
				d2, skipped := c06HistoryMidFinalize(v, 256, ops, k)
				if skipped {
					continue
				}
				n++
				if d2 != "" {
					return "unexplained:finalize-mid-history", fmt.Sprintf("%+v %v with Finalize after call #%d: %s", v, historyNames(al, idx), k-1, d2), n, nil
				}
			}
		}
		return "", "", n, nil
	}, r, 256)
	// every instruction method of the emitter that takes no label (two operand patterns each) as a symbol:
	// all histories of length <= 2 over the alphabet extended by them, under the listing-off variants
	{
		var vs []asmVariant
		for _, v := range variants {
			if !v.Listing {
				vs = append(vs, v)
			}
		}
		mo := asmMethodOps()
		h2, t2, _ := asmHistorySearch(2, vs, func(v asmVariant, al []asmOp, idx []int) (string, string, int, *asmHistory) {
			ops := make([]asmOp, len(idx))
			for i, k := range idx {
				ops[i] = al[k]
			}
			if d := c06History(v, 256, ops); d != "" {
				return "unexplained:finalize", fmt.Sprintf("%+v %v: %s", v, historyNames(al, idx), d), 1, nil
			}
			return "", "", 1, nil
		}, r, 256, mo...)
		hist += h2
		trans += t2
		r.Set("method_symbols", len(mo))
	}
	// distance sweep
	var dist []c06Dist
	lim := 300
	for _, v := range variants {
		if !v.Listing {
			continue
		}
		for name := range c06Branches {
			for d := -lim; d <= lim; d++ {
				for refs := 1; refs <= 3; refs++ {
					for _, ex := range []string{"", "unresolved", "out-of-range"} {
						if refs > 1 && ex != "" && d%16 != 0 && d != 127 && d != 128 && d != -128 && d != -129 {
							continue
						}
						dist = append(dist, c06Dist{v, name, d, refs, ex, 0})
					}
				}
			}
		}
	}
	// many references to one label (reference lists growing past several capacity steps, counts above 255)
	for _, v := range variants {
		if v.BaseSet && v.Base != 0x008000 {
			continue
		}
		for _, refs := range []int{9, 17, 33, 60} {
			for _, d := range []int{0, 1, 7} {
				dist = append(dist, c06Dist{v, "BNE", d, refs, "", 0}, c06Dist{v, "BRA", -2 - d, refs, "unresolved", 0})
			}
		}
		for _, refs := range []int{9, 17, 33, 257, 300} {
			dist = append(dist, c06Dist{v, "JMP", 5, refs, "", 0}, c06Dist{v, "JMP", -8, refs, "out-of-range", 0})
		}
	}
	// other label names around both ends of the range
	for _, v := range variants {
		if v.BaseSet && v.Base != 0x008000 {
			continue
		}
		for name := range c06Branches {
			for ni := 1; ni < len(c06LabelNames); ni++ {
				for _, d := range []int{-130, -129, -128, -127, -1, 0, 1, 126, 127, 128, 129} {
					for _, ex := range []string{"", "unresolved"} {
						dist = append(dist, c06Dist{v, name, d, 2, ex, ni})
					}
				}
			}
		}
	}
	// far distances: label and branch (almost) a whole bank apart -- 16-bit arithmetic on the distance would
	// make them look near. The program must stay inside one bank, so only bases at a bank start, listing off.
	for _, v := range variants {
		if v.Listing || (v.BaseSet && v.Base&0xFFFF != 0) {
			continue
		}
		for name, br := range c06Branches {
			ilen := 3
			if br.s8 {
				ilen = 2
			}
			for k := 0; k <= 140; k++ {
				dist = append(dist, c06Dist{v, name, -65536 + k, 1, "", 0}, c06Dist{v, name, 65536 - ilen - k, 1, "", 0})
			}
			for k := -3; k <= 3; k++ {
				dist = append(dist, c06Dist{v, name, -32768 + k, 1, "", 0}, c06Dist{v, name, 32768 + k, 1, "", 0})
			}
		}
	}
	var nd int64
	par.For(len(dist), func(_, i int) {
		if sig, what := c06DistRun(dist[i]); sig != "" {
			d := dist[i].Distance
			if d < 0 {
				d = -d
			}
			r.ViolationSized(sig, what, dist[i], d+dist[i].Refs+len(dist[i].Extra))
		}
		atomic.AddInt64(&nd, 1)
	})
	r.Set("states", hist+nd)
	r.Set("transitions", trans+nd)
	r.Set("traces_validated_against_impl", hist+nd)
	r.Set("evaluations", hist+nd)
	r.Set("distinct_nontrivial", hist+nd)
	r.Set("histories", hist)
	r.Set("distance_cases", nd)
	r.Set("bounds", map[string]interface{}{"history_depth": depth, "alphabet": len(asmAlphabet()), "constructor_variants": len(variants), "distances": fmt.Sprintf("[-%d,%d]", lim, lim), "branches": len(c06Branches)})
	r.Set("rule", "every sequence of emitter calls up to the depth over the 25-symbol alphabet under every constructor variant (listing on/off x base unset/$000000/$008000/$7E2000/$FF8000): each call is executed on a fresh real Emitter and what the emitter did is recorded (accepted or not, the bytes it appended and their offset in Bytes()); a label may be defined once (a second definition must be refused without effect); then Finalize twice against the resolution computed from those positions (which references are resolvable and in range, the operand values, no other byte changed); with listing off also with a successful Finalize inserted after every proper prefix; plus every branch distance in the stated range (and distances a whole bank apart, -65536..-65396 and +65393..+65534, and around +-32768) for each label-taking method, forward and backward, 1-3 references, with and without an additional unresolved or out-of-range reference. states = histories (each reaches one model state), transitions = calls executed")
	r.Sample(asmHistory{Variant: variants[2], Ops: []string{"BNE(a)", "EmitBytes(33)", "Label(a)", "JMP_abs(b)"}, Capacity: 256})
	r.Sample(c06Dist{variants[0], "BNE", -128, 2, "unresolved", 0})
	r.Assume("Go map iteration order in Finalize is not controlled; the oracle accepts exactly the union of outcomes over all orders (any legitimately unresolved/out-of-range reference may be named, operand bytes may be patched or not on failure)")
}
