package checks

import (
	"fmt"
	"sort"
	"sync"
	"sync/atomic"

	"github.com/alttpo/snes/emulator/cpualt"

	"verif/internal/par"
	"verif/internal/report"
)

// The second bus implementation of the repository (cpualt.Bus: one reader and one writer closure
// per 16-byte cell) has no Attach error results, no alignment rule and no EaDump, and an
// unattached cell is open bus rather than a failure, so only the routing clause of C13 applies
// to it: an access goes to the reader/writer most recently attached over its cell and receives
// the full unmodified address; cells outside an attached range are unaffected.

type c13AltAttach struct {
	Writer bool   `json:"writer"`
	Mem    int    `json:"mem"`
	Start  uint32 `json:"start"`
	End    uint32 `json:"end"`
}

type c13AltCase struct {
	AltBase uint32         `json:"alt_base"`
	AltSegs int            `json:"alt_segs"`
	AltPath []c13AltAttach `json:"alt_path"`
	Probe   string         `json:"probe,omitempty"`
}

type c13AltWorld struct {
	b        *cpualt.Bus
	log      []c13Access
	win      c13Win
	defR     []cpualt.BusReader
	defW     []cpualt.BusWriter
	readers  []cpualt.BusReader
	writers  []cpualt.BusWriter
	rOwn     []int
	wOwn     []int
	prepared bool
}

func c13AltNew() *c13AltWorld {
	w := &c13AltWorld{b: &cpualt.Bus{}}
	w.b.Init()
	for id := 1; id <= 2; id++ {
		id := id
		w.readers = append(w.readers, func(a uint32) uint8 {
			w.log = append(w.log, c13Access{id, a, false, 0})
			return c13Val(id, a)
		})
		w.writers = append(w.writers, func(a uint32, v uint8) {
			w.log = append(w.log, c13Access{id, a, true, v})
		})
	}
	return w
}

// reset puts the cells of the window (guards included) back to what Init left there.
func (w *c13AltWorld) reset(win c13Win) {
	n := int((win.hi - win.lo + 1) / 16)
	if !w.prepared || w.win != win {
		// undo the previous window first
		if w.prepared {
			for i := range w.defR {
				w.b.Read[int(w.win.lo>>4)+i] = w.defR[i]
				w.b.Write[int(w.win.lo>>4)+i] = w.defW[i]
			}
		}
		w.defR, w.defW = make([]cpualt.BusReader, n), make([]cpualt.BusWriter, n)
		for i := 0; i < n; i++ {
			w.defR[i] = w.b.Read[int(win.lo>>4)+i]
			w.defW[i] = w.b.Write[int(win.lo>>4)+i]
		}
		w.win, w.prepared = win, true
	}
	for i := 0; i < n; i++ {
		w.b.Read[int(win.lo>>4)+i] = w.defR[i]
		w.b.Write[int(win.lo>>4)+i] = w.defW[i]
	}
	w.rOwn, w.wOwn = make([]int, n), make([]int, n)
	w.b.M = 0
}

func (w *c13AltWorld) apply(t c13AltAttach) {
	if t.Writer {
		w.b.AttachWriter(t.Start, t.End, w.writers[t.Mem-1])
	} else {
		w.b.AttachReader(t.Start, t.End, w.readers[t.Mem-1])
	}
	own := w.rOwn
	if t.Writer {
		own = w.wOwn
	}
	for a := t.Start; a <= t.End; a += 16 {
		own[(a-w.win.lo)>>4] = t.Mem
		if a+16 < a {
			break
		}
	}
}

func (w *c13AltWorld) key() string { return fmt.Sprint(w.rOwn, w.wOwn) }

// check probes every address of the window with every access method; returns the number of calls.
func (w *c13AltWorld) check(bad func(sig, what, probe string)) (n int64) {
	win := w.win
	call := func(f func()) (p interface{}) {
		defer func() { p = recover() }()
		f()
		return
	}
	for a := win.lo; a <= win.hi; a++ {
		for width := 1; width <= 3; width++ {
			if uint64(a)+uint64(width)-1 > uint64(win.hi) {
				continue
			}
			// reads
			var wantLog []c13Access
			var want uint32
			open := false
			for k := 0; k < width; k++ {
				aa := a + uint32(k)
				o := w.rOwn[(aa-win.lo)>>4]
				if o == 0 {
					open = true
					continue
				}
				wantLog = append(wantLog, c13Access{o, aa, false, 0})
				want |= uint32(c13Val(o, aa)) << (8 * k)
			}
			type rd struct {
				name string
				f    func() uint32
			}
			var rds []rd
			switch width {
			case 1:
				rds = []rd{{"Read8", func() uint32 { return uint32(w.b.Read8(a)) }}, {"EaRead", func() uint32 { return uint32(w.b.EaRead(a)) }}}
			case 2:
				rds = []rd{{"Read16", func() uint32 { return uint32(w.b.Read16(a)) }}}
			case 3:
				rds = []rd{{"Read24", func() uint32 { return w.b.Read24(a) }}}
			}
			for _, r := range rds {
				w.log = w.log[:0]
				var got uint32
				p := call(func() { got = r.f() })
				n++
				probe := fmt.Sprintf("%s %06x", r.name, a)
				if p != nil {
					bad("unexplained:alt-bus-access-panics", fmt.Sprintf("cpualt.Bus.%s($%06x) panicked: %v", r.name, a, p), probe)
					continue
				}
				if !c13LogEq(w.log, wantLog) {
					bad("unexplained:alt-bus-read-misrouted", fmt.Sprintf("cpualt.Bus.%s($%06x): readers saw %v, want %v (reader owners per cell from $%06x: %v)", r.name, a, w.log, wantLog, win.lo, w.rOwn), probe)
				} else if !open && got != want {
					bad("unexplained:alt-bus-read-value", fmt.Sprintf("cpualt.Bus.%s($%06x) = $%x, the attached readers returned $%x", r.name, a, got, want), probe)
				}
			}
			// writes
			val := uint32(0xA1B2C3)
			wantLog = wantLog[:0]
			for k := 0; k < width; k++ {
				aa := a + uint32(k)
				if o := w.wOwn[(aa-win.lo)>>4]; o != 0 {
					wantLog = append(wantLog, c13Access{o, aa, true, byte(val >> (8 * k))})
				}
			}
			type wr struct {
				name string
				f    func()
			}
			var wrs []wr
			switch width {
			case 1:
				wrs = []wr{{"Write8", func() { w.b.Write8(a, byte(val)) }}, {"EaWrite", func() { w.b.EaWrite(a, byte(val)) }}}
			case 2:
				wrs = []wr{{"Write16", func() { w.b.Write16(a, uint16(val)) }}}
			case 3:
				wrs = []wr{{"Write24", func() { w.b.Write24(a, val) }}}
			}
			for _, x := range wrs {
				w.log = w.log[:0]
				p := call(x.f)
				n++
				probe := fmt.Sprintf("%s %06x", x.name, a)
				if p != nil {
					bad("unexplained:alt-bus-access-panics", fmt.Sprintf("cpualt.Bus.%s($%06x) panicked: %v", x.name, a, p), probe)
					continue
				}
				if !c13LogEq(w.log, wantLog) {
					bad("unexplained:alt-bus-write-misrouted", fmt.Sprintf("cpualt.Bus.%s($%06x): writers saw %v, want %v (writer owners per cell from $%06x: %v)", x.name, a, w.log, wantLog, win.lo, w.wOwn), probe)
				}
			}
		}
	}
	return
}

// Ranges that are not multiples of 16 bytes (the cpualt bus has no alignment rule; hardware windows such as
// $2180-$2183 or a lone $4210 are ordinary): every address INSIDE the range must reach the reader / writer
// attached last over it. What happens to the rest of a touched cell is not specified and not looked at.
type c13AltOddCase struct {
	OddBase  uint32 `json:"odd_base"`
	OddStart uint32 `json:"odd_start"`
	OddEnd   uint32 `json:"odd_end"`
	Second   bool   `json:"second"` // a second, aligned attach of the other memory over the neighbouring cell first
}

func c13AltOddRun(c c13AltOddCase) (sig, what string) {
	w := c13AltNew()
	if c.Second {
		w.b.AttachReader(c.OddBase, c.OddBase+0x3F, w.readers[1])
		w.b.AttachWriter(c.OddBase, c.OddBase+0x3F, w.writers[1])
	}
	w.b.AttachReader(c.OddStart, c.OddEnd, w.readers[0])
	w.b.AttachWriter(c.OddStart, c.OddEnd, w.writers[0])
	for a := c.OddStart; a <= c.OddEnd; a++ {
		w.log = w.log[:0]
		var v byte
		pn := func() (p interface{}) { defer func() { p = recover() }(); v = w.b.Read8(a); return }()
		if pn != nil || len(w.log) != 1 || w.log[0] != (c13Access{1, a, false, 0}) || v != c13Val(1, a) {
			return "unexplained:alt-bus-unaligned-range", fmt.Sprintf("cpualt.Bus: reader 1 attached over $%06x-$%06x: Read8($%06x) reached %v (panic %v, value $%02x)", c.OddStart, c.OddEnd, a, w.log, pn, v)
		}
		w.log = w.log[:0]
		pn = func() (p interface{}) { defer func() { p = recover() }(); w.b.Write8(a, 0x3C); return }()
		if pn != nil || len(w.log) != 1 || w.log[0] != (c13Access{1, a, true, 0x3C}) {
			return "unexplained:alt-bus-unaligned-range", fmt.Sprintf("cpualt.Bus: writer 1 attached over $%06x-$%06x: Write8($%06x) reached %v (panic %v)", c.OddStart, c.OddEnd, a, w.log, pn)
		}
	}
	return "", ""
}

func c13AltOddCases() (out []c13AltOddCase) {
	for _, base := range []uint32{0x002180, 0x004200, 0x000000, 0xFFFFC0, 0x7EFFF0} {
		for _, so := range []uint32{0, 1, 8, 15, 16, 17} {
			for _, eo := range []uint32{0, 3, 14, 15, 16, 18, 31, 32, 47} {
				if so <= eo && uint64(base)+uint64(eo) <= 0xFFFFFF {
					for _, sec := range []bool{false, true} {
						out = append(out, c13AltOddCase{base, base + so, base + eo, sec})
					}
				}
			}
		}
	}
	return
}

func c13LogEq(a, b []c13Access) bool {
	if len(a) != len(b) {
		return false
	}
	for i := range a {
		if a[i] != b[i] {
			return false
		}
	}
	return true
}

func c13AltActions(base uint32, segs int) []c13AltAttach {
	var out []c13AltAttach
	for _, wr := range []bool{false, true} {
		for mem := 1; mem <= 2; mem++ {
			for i := 0; i < segs; i++ {
				for j := i; j < segs; j++ {
					out = append(out, c13AltAttach{wr, mem, base + uint32(i)*16, base + uint32(j)*16 + 15})
				}
			}
		}
	}
	return out
}

func c13AltReplay(w *c13AltWorld, c c13AltCase) {
	w.reset(c13Window(c.AltBase, c.AltSegs))
	for _, t := range c.AltPath {
		w.apply(t)
	}
}

func c13AltReplayCase(c c13AltCase) (sig, what string) {
	w := c13AltNew()
	c13AltReplay(w, c)
	w.check(func(s, wh, probe string) {
		if sig == "" && (c.Probe == "" || c.Probe == probe) {
			sig, what = s, wh
		}
	})
	return
}

// runC13Alt: BFS to a fixpoint over (reader owner, writer owner) per window cell.
func runC13Alt(r *report.Run, segs int, bases []uint32) (states, transitions, evals int64) {
	worlds := make([]*c13AltWorld, 16)
	for _, base := range bases {
		acts := c13AltActions(base, segs)
		seen := map[string]bool{}
		var mu sync.Mutex
		frontier := [][]c13AltAttach{nil}
		first := true
		for len(frontier) > 0 {
			var next [][]c13AltAttach
			par.For(len(frontier), func(wk, fi int) {
				if worlds[wk] == nil {
					worlds[wk] = c13AltNew()
				}
				w := worlds[wk]
				path := frontier[fi]
				if first {
					c := c13AltCase{AltBase: base, AltSegs: segs}
					c13AltReplay(w, c)
					mu.Lock()
					seen[w.key()] = true
					mu.Unlock()
					atomic.AddInt64(&evals, w.check(func(sig, what, probe string) {
						cc := c
						cc.Probe = probe
						r.ViolationSized(sig, what, cc, 0)
					}))
				}
				for _, t := range acts {
					c := c13AltCase{AltBase: base, AltSegs: segs, AltPath: append(append([]c13AltAttach(nil), path...), t)}
					c13AltReplay(w, c)
					atomic.AddInt64(&transitions, 1)
					k := w.key()
					mu.Lock()
					old := seen[k]
					if !old {
						seen[k] = true
						next = append(next, c.AltPath)
					}
					mu.Unlock()
					if !old {
						atomic.AddInt64(&evals, w.check(func(sig, what, probe string) {
							cc := c
							cc.Probe = probe
							r.ViolationSized(sig, what, cc, len(cc.AltPath))
						}))
					}
				}
			})
			first = false
			sort.Slice(next, func(i, j int) bool { return fmt.Sprint(next[i]) < fmt.Sprint(next[j]) })
			frontier = next
		}
		states += int64(len(seen))
	}
	return
}
