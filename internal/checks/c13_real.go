package checks

import (
	"bytes"
	"fmt"

	"github.com/alttpo/snes/emulator/bus"
	"github.com/alttpo/snes/emulator/memory"
)

// The library's own memory types behind the bus (the BFS uses instrumented memories): memory.RAM and
// memory.ROM subtract their offset from the full bus address they receive. Three objects are attached
// (RAM A, ROM R next to it, RAM B over the seam, most recent); every address of the region is read and
// written through the bus and the backing arrays are compared with a plain owner map.

type c13RealCase struct {
	RealBase uint32 `json:"real_base"`
	Probe    string `json:"probe,omitempty"`
}

func c13RealRun(c c13RealCase) (sig, what string) {
	s := c.RealBase
	b, _ := bus.New()
	mk := func(seed byte) []byte {
		d := make([]byte, 64)
		for i := range d {
			d[i] = seed + byte(i)*3
		}
		return d
	}
	arr := [3][]byte{mk(0x11), mk(0x57), mk(0xA9)}
	type att struct {
		id         int
		start, end uint32
		rom        bool
	}
	atts := []att{{0, s, s + 63, false}, {1, s + 64, s + 127, true}, {2, s + 32, s + 95, false}}
	for _, a := range atts {
		var m memory.Memory
		if a.rom {
			m = memory.NewROM(arr[a.id], a.start)
		} else {
			m = memory.NewRAM(arr[a.id], a.start)
		}
		if err := b.Attach(m, "m", a.start, a.end); err != nil {
			return "unexplained:attach-result", fmt.Sprintf("aligned Attach($%06x,$%06x) rejected: %v", a.start, a.end, err)
		}
	}
	owner := func(a uint32) (id int, off int, rom bool) {
		id = -1
		for _, t := range atts {
			if a >= t.start && a <= t.end {
				id, off, rom = t.id, int(a-t.start), t.rom
			}
		}
		return
	}
	lo, hi := s, s+127
	if s >= 16 {
		lo = s - 16
	}
	if uint64(hi)+16 <= 0xFFFFFF {
		hi += 16
	}
	call := func(f func()) (p interface{}) {
		defer func() { p = recover() }()
		f()
		return
	}
	for a := lo; ; a++ {
		id, off, rom := owner(a)
		probe := fmt.Sprintf("real %06x", a)
		if c.Probe == "" || c.Probe == probe {
			var v byte
			p := call(func() { v = b.EaRead(a) })
			switch {
			case id < 0 && p == nil:
				return "unexplained:unattached-read-does-not-fail", fmt.Sprintf("read of never-attached $%06x returned $%02x", a, v)
			case id >= 0 && (p != nil || v != arr[id][off]):
				return "unexplained:read-misrouted", fmt.Sprintf("read of $%06x = $%02x (panic %v), want byte %d of object %d = $%02x", a, v, p, off, id, arr[id][off])
			}
			snap := [3][]byte{append([]byte(nil), arr[0]...), append([]byte(nil), arr[1]...), append([]byte(nil), arr[2]...)}
			nv := ^v
			p = call(func() { b.EaWrite(a, nv) })
			switch {
			case id < 0 && p == nil:
				return "unexplained:unattached-write-does-not-fail", fmt.Sprintf("write to never-attached $%06x did not fail", a)
			case id >= 0 && p != nil:
				return "unexplained:attached-write-panics", fmt.Sprintf("write to $%06x (object %d) panicked: %v", a, id, p)
			}
			if id >= 0 && (!rom || arr[id][off] == nv) {
				// what a ROM object does with a write is its own affair (the library's ignores it);
				// routing only demands that no OTHER byte of any object changes
				snap[id][off] = nv
			}
			for k := range arr {
				if !bytes.Equal(arr[k], snap[k]) {
					return "unexplained:write-misrouted", fmt.Sprintf("write of $%02x to $%06x (object %d offset %d, rom=%v): object %d is now % x, want % x", nv, a, id, off, rom, k, arr[k], snap[k])
				}
			}
		}
		if a == hi {
			break
		}
	}
	// EaDump across the seams equals byte-wise reads
	const sentinel = 0xE7
	buf := make([]byte, int(hi-lo)+9)
	for st := lo; st <= hi; st += 5 {
		for en := st; en <= hi; en += 7 {
			for i := range buf {
				buf[i] = sentinel
			}
			var n int
			if p := call(func() { n = b.EaDump(st, en, buf) }); p != nil {
				return "unexplained:eadump", fmt.Sprintf("EaDump($%06x,$%06x) over real memories panicked: %v", st, en, p)
			}
			if n != int(en-st+1) {
				return "unexplained:eadump", fmt.Sprintf("EaDump($%06x,$%06x) returned %d, want %d", st, en, n, en-st+1)
			}
			for i := 0; i < len(buf); i++ {
				want := byte(sentinel)
				if i < n {
					if id, off, _ := owner(st + uint32(i)); id >= 0 {
						want = arr[id][off]
					}
				}
				if buf[i] != want {
					return "unexplained:eadump", fmt.Sprintf("EaDump($%06x,$%06x) over real memories: position %d holds $%02x, want $%02x", st, en, i, buf[i], want)
				}
			}
		}
	}
	return "", ""
}
