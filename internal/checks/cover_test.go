package checks

import (
	"os"
	"runtime/debug"
	"strings"
	"testing"

	"verif/internal/report"
)

// TestCoverRun runs the quick tier of the checks named in VERIF_COVER_IDS (comma separated) inside the
// test binary so that `go test -coverpkg=github.com/alttpo/snes/...` can report which library statements
// the explorations reach (tools/coverage.sh). It is not a check: verdicts come from ./run.
func TestCoverRun(t *testing.T) {
	ids := os.Getenv("VERIF_COVER_IDS")
	if ids == "" {
		t.Skip("VERIF_COVER_IDS not set")
	}
	for _, id := range strings.Split(ids, ",") {
		c, ok := Registry[id]
		if !ok {
			t.Fatalf("unknown check %s", id)
		}
		gc := c.GC
		if gc == 0 {
			gc = 400
		}
		debug.SetGCPercent(gc)
		r := report.New(id, "quick", c.Level)
		c.Run(r)
		t.Logf("%s: %d violation signatures", id, r.NSignatures())
	}
}
