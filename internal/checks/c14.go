package checks

import (
	"bufio"
	"bytes"
	"encoding/json"
	"fmt"
	"io"
	"strings"
	"sync/atomic"
	"time"

	"github.com/alttpo/snes/emulator"
	"github.com/alttpo/snes/emulator/cpu65c816"

	"verif/internal/par"
	"verif/internal/ref65816"
	"verif/internal/report"
)

func init() {
	Registry["C14"] = Check{GC: 25, Level: "model_checking", Run: runC14, Replay: replayC14}
}

// ---- trace line parser (shared by the three renderers of the two packages)

type traceLine struct {
	bank, addr uint32
	bytes      []byte
	mnemonic   string
	operand    string
	regs       string // the part holding A= X= Y= and the flag letters ("" if the renderer has none)
	parseErr   string
}

func isHex(c byte) bool { return c >= '0' && c <= '9' || c >= 'a' && c <= 'f' || c >= 'A' && c <= 'F' }

func hexVal(s string) (uint32, bool) {
	var v uint32
	if s == "" {
		return 0, false
	}
	for i := 0; i < len(s); i++ {
		c := s[i]
		switch {
		case c >= '0' && c <= '9':
			v = v<<4 | uint32(c-'0')
		case c >= 'a' && c <= 'f':
			v = v<<4 | uint32(c-'a'+10)
		case c >= 'A' && c <= 'F':
			v = v<<4 | uint32(c-'A'+10)
		default:
			return 0, false
		}
	}
	return v, true
}

func parseTrace(line string) traceLine {
	var t traceLine
	s := strings.ReplaceAll(line, "│", "|")
	s = strings.TrimRight(s, "\n")
	f := strings.Split(s, "|")
	ai := -1
	for i, x := range f {
		x = strings.TrimSpace(x)
		if len(x) >= 7 && x[len(x)-5] == ':' {
			b, ok1 := hexVal(x[len(x)-7 : len(x)-5])
			a, ok2 := hexVal(x[len(x)-4:])
			if ok1 && ok2 && (len(x) == 7 || !isHex(x[len(x)-8])) {
				t.bank, t.addr, ai = b, a, i
				break
			}
		}
	}
	if ai < 0 || ai+2 >= len(f) {
		t.parseErr = "no bank:address field followed by a byte column and an instruction field"
		return t
	}
	for _, tok := range strings.Fields(f[ai+1]) {
		v, ok := hexVal(tok)
		if !ok || len(tok) != 2 {
			t.parseErr = "byte column holds " + tok
			return t
		}
		t.bytes = append(t.bytes, byte(v))
	}
	ins := strings.TrimSpace(f[ai+2])
	if k := strings.IndexByte(ins, ' '); k >= 0 {
		t.mnemonic, t.operand = ins[:k], strings.TrimSpace(ins[k+1:])
	} else {
		t.mnemonic = ins
	}
	for i, x := range f {
		if i != ai+2 && strings.Contains(x, "A=") {
			t.regs = x
		}
	}
	return t
}

// operand features: what standard 65816 assembler syntax shows for an addressing mode,
// independent of spacing, case and separator cosmetics.
type opFeatures struct {
	hash    int    // number of '#'
	bracket string // "", "()", "[]"
	inside  string // index/stack letters inside the brackets, sorted: subset of "SXY"
	outside string // index letters outside the brackets
	digits  []int  // lengths of the hex digit groups, in order
	accA    bool   // the operand is just "A"
}

func (f opFeatures) String() string {
	return fmt.Sprintf("#=%d br=%q in=%q out=%q digits=%v A=%v", f.hash, f.bracket, f.inside, f.outside, f.digits, f.accA)
}

func operandFeatures(op string) (opFeatures, []string) {
	var f opFeatures
	var groups []string
	if strings.EqualFold(strings.TrimSpace(op), "A") {
		f.accA = true
		return f, nil
	}
	depth := 0
	in := map[byte]bool{}
	out := map[byte]bool{}
	for i := 0; i < len(op); i++ {
		c := op[i]
		switch {
		case c == '#':
			f.hash++
		case c == '(':
			f.bracket = "()"
			depth++
		case c == '[':
			f.bracket = "[]"
			depth++
		case c == ')' || c == ']':
			depth--
		case isHex(c):
			j := i
			for j < len(op) && isHex(op[j]) {
				j++
			}
			groups = append(groups, op[i:j])
			f.digits = append(f.digits, j-i)
			i = j - 1
		case c == 'X' || c == 'x' || c == 'Y' || c == 'y' || c == 'S' || c == 's':
			u := c &^ 0x20
			if depth > 0 {
				in[u] = true
			} else {
				out[u] = true
			}
		}
	}
	for _, c := range []byte("SXY") {
		if in[c] {
			f.inside += string(c)
		}
		if out[c] {
			f.outside += string(c)
		}
	}
	return f, groups
}

func expectedFeatures(mode ref65816.Mode, ilen int) opFeatures {
	switch mode {
	case ref65816.Imp:
		return opFeatures{}
	case ref65816.Acc:
		return opFeatures{accA: true}
	case ref65816.ImM, ref65816.ImX, ref65816.Im8, ref65816.Im16:
		return opFeatures{hash: 1, digits: []int{2 * (ilen - 1)}}
	case ref65816.Dp:
		return opFeatures{digits: []int{2}}
	case ref65816.Dpx:
		return opFeatures{digits: []int{2}, outside: "X"}
	case ref65816.Dpy:
		return opFeatures{digits: []int{2}, outside: "Y"}
	case ref65816.Idp:
		return opFeatures{digits: []int{2}, bracket: "()"}
	case ref65816.Idx:
		return opFeatures{digits: []int{2}, bracket: "()", inside: "X"}
	case ref65816.Idy:
		return opFeatures{digits: []int{2}, bracket: "()", outside: "Y"}
	case ref65816.Ildp:
		return opFeatures{digits: []int{2}, bracket: "[]"}
	case ref65816.Ildy:
		return opFeatures{digits: []int{2}, bracket: "[]", outside: "Y"}
	case ref65816.Sr:
		return opFeatures{digits: []int{2}, outside: "S"}
	case ref65816.Isy:
		return opFeatures{digits: []int{2}, bracket: "()", inside: "S", outside: "Y"}
	case ref65816.Abs:
		return opFeatures{digits: []int{4}}
	case ref65816.Abx:
		return opFeatures{digits: []int{4}, outside: "X"}
	case ref65816.Aby:
		return opFeatures{digits: []int{4}, outside: "Y"}
	case ref65816.Lng:
		return opFeatures{digits: []int{6}}
	case ref65816.Lnx:
		return opFeatures{digits: []int{6}, outside: "X"}
	case ref65816.Iab:
		return opFeatures{digits: []int{4}, bracket: "()"}
	case ref65816.Iax:
		return opFeatures{digits: []int{4}, bracket: "()", inside: "X"}
	case ref65816.Ial:
		return opFeatures{digits: []int{4}, bracket: "[]"}
	case ref65816.Blk:
		return opFeatures{hash: 2, digits: []int{2, 2}}
	}
	return opFeatures{}
}

func sameFeatures(a, b opFeatures) bool {
	if a.hash != b.hash || a.bracket != b.bracket || a.inside != b.inside || a.outside != b.outside || a.accA != b.accA || len(a.digits) != len(b.digits) {
		return false
	}
	for i := range a.digits {
		if a.digits[i] != b.digits[i] {
			return false
		}
	}
	return true
}

var mnemonicAlias = map[string]string{"JML": "JMP", "JSL": "JSR"}

func sameMnemonic(printed, table string) bool {
	p := strings.ToUpper(printed)
	if p == table {
		return true
	}
	if a, ok := mnemonicAlias[table]; ok && p == a {
		return true
	}
	if a, ok := mnemonicAlias[p]; ok && a == table {
		return true
	}
	return false
}

// checkTraceLine compares one rendered line with the pre-step architectural state and image.
// peek returns the image byte at a 24-bit address. Returns "" or a description of the first lie.
func checkTraceLine(line string, s ref65816.State, peek func(uint32) byte, wantRegs bool) (kind, what string) {
	t := parseTrace(line)
	if t.parseErr != "" {
		return "unparsable", t.parseErr
	}
	if t.bank != uint32(s.K) || t.addr != uint32(s.PC) {
		return "address", fmt.Sprintf("line shows %02x:%04x, instruction is at %02x:%04x", t.bank, t.addr, s.K, s.PC)
	}
	k := uint32(s.K) << 16
	op := peek(k | uint32(s.PC))
	e := ref65816.Table[op]
	ilen := ref65816.Length(op, s.P&ref65816.FM != 0, s.P&ref65816.FX != 0)
	var want []byte
	for i := 0; i < ilen; i++ {
		want = append(want, peek(k|uint32(s.PC+uint16(i))))
	}
	if len(t.bytes) != len(want) {
		return "bytes", fmt.Sprintf("byte column % x, the instruction occupies % x (%d bytes for m=%d x=%d)", t.bytes, want, ilen, s.P>>5&1, s.P>>4&1)
	}
	for i := range want {
		if t.bytes[i] != want[i] {
			return "bytes", fmt.Sprintf("byte column % x, the instruction bytes are % x", t.bytes, want)
		}
	}
	if !sameMnemonic(t.mnemonic, e.Mn) {
		return "mnemonic", fmt.Sprintf("mnemonic %q, opcode %02x is %s", t.mnemonic, op, e.Mn)
	}
	f, groups := operandFeatures(t.operand)
	switch e.Mode {
	case ref65816.Rel, ref65816.Rll:
		var dest uint16
		if e.Mode == ref65816.Rel {
			dest = s.PC + 2 + uint16(int16(int8(want[1])))
		} else {
			dest = s.PC + 3 + (uint16(want[1]) | uint16(want[2])<<8)
		}
		found := false
		for _, g := range groups {
			if v, ok := hexVal(g); ok && len(g) == 4 && uint16(v) == dest {
				found = true
			}
		}
		if !found {
			return "branch-target", fmt.Sprintf("operand %q does not show the branch destination $%04x (PC=$%04x, displacement bytes % x)", t.operand, dest, s.PC, want[1:])
		}
	default:
		ef := expectedFeatures(e.Mode, ilen)
		if !sameFeatures(f, ef) {
			return "operand-shape", fmt.Sprintf("operand %q (%v) is not a rendering of mode %s (%v)", t.operand, f, modeName[e.Mode], ef)
		}
		// digits: operand bytes in big-endian order; block move: second operand byte first
		var exp []string
		switch {
		case e.Mode == ref65816.Blk:
			exp = []string{fmt.Sprintf("%02x", want[2]), fmt.Sprintf("%02x", want[1])}
		case ilen > 1:
			d := ""
			for i := ilen - 1; i >= 1; i-- {
				d += fmt.Sprintf("%02x", want[i])
			}
			exp = []string{d}
		}
		for i := range exp {
			if !strings.EqualFold(groups[i], exp[i]) {
				return "operand-digits", fmt.Sprintf("operand %q shows %v, the operand is %v", t.operand, groups, exp)
			}
		}
	}
	if wantRegs {
		if k, w := checkRegColumns(t.regs, s); k != "" {
			return k, w
		}
	}
	return "", ""
}

func checkRegColumns(regs string, s ref65816.State) (string, string) {
	get := func(name string) string {
		i := strings.Index(regs, name+"=")
		if i < 0 {
			return ""
		}
		j := i + len(name) + 1
		k := j
		for k < len(regs) && regs[k] != ' ' && regs[k] != '\n' {
			k++
		}
		return regs[j:k]
	}
	chk := func(name string, v uint16, eight bool) (string, string) {
		g := get(name)
		want := fmt.Sprintf("%04x", v)
		if eight {
			want = fmt.Sprintf("--%02x", v&0xFF)
		}
		if !strings.EqualFold(g, want) {
			return "registers", fmt.Sprintf("%s column shows %q, the instruction will see %s (m=%d x=%d)", name, g, want, s.P>>5&1, s.P>>4&1)
		}
		return "", ""
	}
	if k, w := chk("A", s.C, s.P&ref65816.FM != 0); k != "" {
		return k, w
	}
	if k, w := chk("X", s.X, s.P&ref65816.FX != 0); k != "" {
		return k, w
	}
	if k, w := chk("Y", s.Y, s.P&ref65816.FX != 0); k != "" {
		return k, w
	}
	if g := get("S"); g != "" {
		if !strings.EqualFold(g, fmt.Sprintf("%04x", s.S)) {
			return "registers", fmt.Sprintf("S column shows %q, S is %04x", g, s.S)
		}
	}
	// flag letters nvmxdizc
	names := "nvmxdizc"
	for _, tok := range strings.Fields(regs) {
		if len(tok) != 8 {
			continue
		}
		ok := true
		for i := 0; i < 8; i++ {
			if tok[i] != '-' && tok[i]|0x20 != names[i] {
				ok = false
			}
		}
		if !ok {
			continue
		}
		for i := 0; i < 8; i++ {
			set := s.P&(0x80>>uint(i)) != 0
			if set != (tok[i] != '-') {
				return "flags", fmt.Sprintf("flag column %q, P is %08b (nvmxdizc)", tok, s.P)
			}
		}
		return "", ""
	}
	return "flags", fmt.Sprintf("no flag column found in %q", regs)
}

// ---- single-step part

type c14Renderer struct {
	name     string
	machine  int
	wantRegs bool
	render   func(x *cpuCtx) (string, interface{})
}

func c14Renderers() []c14Renderer {
	return []c14Renderer{
		{"cpu65c816.DisassembleCurrentPC", 0, true, func(x *cpuCtx) (s string, pn interface{}) {
			b, pn := x.pri.Disasm()
			return string(b), pn
		}},
		{"cpualt.DisassembleCurrentPC", 1, true, func(x *cpuCtx) (s string, pn interface{}) {
			b, pn := x.alt.Disasm()
			return string(b), pn
		}},
		// append style: the buffer handed in already holds earlier lines (no spare capacity / a little)
		{"cpu65c816.DisassembleCurrentPC(buffer holding earlier lines)", 0, true, func(x *cpuCtx) (string, interface{}) {
			return c14Into(x.pri.DisasmInto)
		}},
		{"cpualt.DisassembleCurrentPC(buffer holding earlier lines)", 1, true, func(x *cpuCtx) (string, interface{}) {
			return c14Into(x.alt.DisasmInto)
		}},
		{"cpualt.Disassemble", 1, false, func(x *cpuCtx) (s string, pn interface{}) {
			defer func() { pn = recover() }()
			s = x.alt.C.Disassemble(x.alt.C.PC)
			return
		}},
	}
}

var c14Earlier = []byte(strings.Repeat("00:8000 ea          nop                      A:0000 X:0000 Y:0000\n", 3))

// c14Into calls an append-style renderer twice, with a buffer that is exactly full and with one that has 10
// spare bytes; the earlier lines must still be there, followed by the same new line.
func c14Into(f func([]byte) ([]byte, interface{})) (string, interface{}) {
	var line string
	for i, spare := range []int{0, 10} {
		buf := make([]byte, len(c14Earlier), len(c14Earlier)+spare)
		copy(buf, c14Earlier)
		o, pn := f(buf)
		if pn != nil {
			return "", pn
		}
		if len(o) < len(c14Earlier) || !bytes.Equal(o[:len(c14Earlier)], c14Earlier) {
			return "", fmt.Sprintf("the %d bytes of earlier lines in the buffer handed in (spare capacity %d) were not preserved: result starts %q", len(c14Earlier), spare, o[:min(len(o), 40)])
		}
		l := string(o[len(c14Earlier):])
		if i > 0 && l != line {
			return "", fmt.Sprintf("line appended to a full buffer %q, to a buffer with spare room %q", line, l)
		}
		line = l
	}
	return line, nil
}

func c14StepCheck(x *cpuCtx, c *cpuCase) (sig, what string) {
	x.buildImage(c)
	e := ref65816.Table[c.Op]
	for _, rd := range c14Renderers() {
		m := x.ms[rd.machine]
		m.Mem().ResetFrom(&x.img)
		raw := mkRaw(c.S, c.Stale, c.Int)
		raw.AllCycles = 77
		m.Load(raw)
		line, pn := rd.render(x)
		tag := fmt.Sprintf("%s:%s", rd.name, modeName[e.Mode])
		if pn != nil {
			return "unexplained:trace-panics:" + tag, fmt.Sprintf("%s panicked: %v | case %s", rd.name, pn, c.String())
		}
		if after := m.Save(); after != raw || len(m.Mem().Writes) != 0 {
			return "unexplained:trace-perturbs-state:" + tag, fmt.Sprintf("%s changed the CPU/memory: before %v after %v writes %v | case %s", rd.name, raw, after, m.Mem().Writes, c.String())
		}
		// the authoritative register copies are what alpha extracts
		pre := alpha(raw)
		// the tracer reads through the same bus as the CPU: it may look at the bytes of the instruction it
		// describes and nothing else (a read beyond them can hit a hole in the memory map or an I/O register)
		{
			ilen := ref65816.Length(c.Op, pre.P&ref65816.FM != 0, pre.P&ref65816.FX != 0)
			for _, a := range m.Mem().Reads {
				off := uint16(a) - pre.PC
				if a>>16 != uint32(pre.K) || int(off) >= ilen {
					return "unexplained:trace-reads-beyond-instruction:" + tag, fmt.Sprintf("%s read $%06x while rendering the %d-byte instruction at %02x:%04x | case %s", rd.name, a, ilen, pre.K, pre.PC, c.String())
				}
			}
		}
		if kind, w := checkTraceLine(line, pre, x.img.Peek, rd.wantRegs); kind != "" {
			sig := fmt.Sprintf("unexplained:trace-%s:%s", kind, tag)
			if kind == "branch-target" && e.Mode == ref65816.Rel && c.Opnd[0] >= 0x80 {
				// alternative model of defect F15: backward rel8 rendered as forward (+$100)
				alt := pre.PC + 2 + uint16(c.Opnd[0])
				if strings.Contains(strings.ToLower(line), fmt.Sprintf("$%04x", alt)) {
					sig = "rel8-backward-branch-rendered-forward:" + rd.name
				}
			}
			return sig, fmt.Sprintf("%s: %s | line %q | case %s", rd.name, w, strings.TrimRight(line, "\n"), c.String())
		}
	}
	return "", ""
}

// ---- RunUntil with a Logger: non-perturbation and one truthful line per instruction

// c14Logger is the trace logger handed to the System under test. When a line arrives it is judged at
// once against the CPU state and memory of that very moment (the instruction about to execute), and the
// arrival is recorded in the event list next to the instruction fetches reported by the program-counter
// callbacks.
type c14Event struct {
	line bool   // a trace line arrived (else: an instruction was fetched)
	pc   uint32 // bank:address of the instruction concerned
	bad  string // line only: what is untruthful about it ("" = truthful)
	text string
}

const c14LateJudged = 0xFFFFFFFF

type c14Logger struct {
	sys       *emulator.System
	events    *[]c14Event
	rc        bool // offers Reserve/Commit
	reserved  []int
	committed int
	// detachAfter > 0: the logger takes itself off the System (sys.Logger = nil) after that many lines
	detachAfter, lines int
	// failAfter > 0: from that line on Write returns (len/2, io.ErrShortWrite)
	failAfter int
}

func c14PreState(c *cpu65c816.CPU) ref65816.State {
	pre := ref65816.State{PC: c.PC, K: c.RK, P: c.Flags(), S: c.SP, D: c.RD, DBR: c.RDBR}
	if c.M == 1 {
		pre.C = uint16(c.RAh)<<8 | uint16(c.RAl)
	} else {
		pre.C = c.RA
	}
	if c.X == 1 {
		pre.X, pre.Y = uint16(c.RXl), uint16(c.RYl)
	} else {
		pre.X, pre.Y = c.RX, c.RY
	}
	return pre
}

func (l *c14Logger) Write(p []byte) (int, error) {
	c := &l.sys.CPU
	pre := c14PreState(c)
	ev := c14Event{line: true, pc: uint32(c.RK)<<16 | uint32(c.PC), text: strings.TrimRight(string(p), "\n")}
	if kind, wt := checkTraceLine(string(p), pre, func(a uint32) byte { return l.sys.Bus.EaRead(a) }, true); kind != "" {
		ev.bad = kind + ": " + wt
	}
	*l.events = append(*l.events, ev)
	if l.failAfter > 0 && l.lines+1 >= l.failAfter {
		// a sink that fails (full disk, closed pipe): it reports a short write and an error from now on
		l.lines++
		return len(p) / 2, io.ErrShortWrite
	}
	if l.lines++; l.detachAfter > 0 && l.lines == l.detachAfter {
		l.sys.Logger = nil // the field is the caller's: it may be cleared at any time, also from inside Write
	}
	return len(p), nil
}

type c14RCLogger struct{ c14Logger }

func (l *c14RCLogger) Reserve(n int) { l.reserved = append(l.reserved, n) }
func (l *c14RCLogger) Commit()       { l.committed++ }

// c14RunCheck: the same RunUntil call on two Systems prepared alike, one with a logger and one without.
// Non-perturbation is the comparison of the two outcomes; truthfulness is judged line by line when the
// line is written; every instruction fetched at a watched address must have been announced by exactly one
// line. How RunUntil decides to stop (budget, target) is C12's subject and plays no role here.
func c14RunCheck(w *c12World, rr c12Run) (sig, what string) {
	code, _, err := c12Assemble(rr.Prog, rr.Start)
	if err != nil {
		return "bad-case", err.Error()
	}
	if w.skipped {
		for _, s := range []*emulator.System{w.sut, w.twin} {
			for i := range s.ROM {
				s.ROM[i] = 0
			}
			for i := range s.SRAM {
				s.SRAM[i] = 0
			}
		}
		w.skipped = false
	}
	c12Prepare(w.sut, rr)
	c12Prepare(w.twin, rr)
	desc := func() string {
		return fmt.Sprintf("program %v at $%06x target $%06x budget %d logger %d", rr.Prog, rr.Start, rr.Target, rr.Budget, rr.Logger)
	}
	limit := 1100
	if rr.Budget < 1000 {
		limit = int(rr.Budget) + 4
	}
	watched := map[uint32]bool{}
	for a := rr.Start - 2; a < rr.Start+uint32(len(code))+4; a++ {
		watched[a] = true
	}
	for a := uint32(0); a < 8; a++ {
		watched[a] = true
	}
	run := func(s *emulator.System, events *[]c14Event) (got bool, pn interface{}) {
		calls := 0
		cb := map[uint32]func(){}
		for a := range watched {
			a := a
			cb[a] = func() {
				if calls++; calls > limit {
					panic(c12Sentinel{})
				}
				if events != nil {
					*events = append(*events, c14Event{pc: a})
				}
			}
		}
		s.CPU.OnPC = cb
		c12WatchMu.Lock()
		w.busy, w.started, w.unlogged = &rr, time.Now(), events == nil
		c12WatchMu.Unlock()
		func() {
			defer func() { pn = recover() }()
			got = s.RunUntil(rr.Target, rr.Budget)
		}()
		c12WatchMu.Lock()
		w.busy = nil
		c12WatchMu.Unlock()
		return
	}
	// without a logger
	wantRes, pnT := run(w.twin, nil)
	if pnT != nil {
		// the unlogged run does not come back within the guard (an effectively unlimited budget, a target that
		// is not reached): nothing to compare; whether RunUntil should have stopped is C12's question
		w.skipped = true
		return "", ""
	}
	// with a logger
	var events []c14Event
	var lg *c14Logger
	// loggers 5..8 are sinks of the standard library (what a caller would ordinarily hand in): their text is
	// collected after the run and judged line by line during the hand re-execution below
	var std func() string
	if rr.Logger >= 5 {
		lg = &c14Logger{sys: w.sut, events: &events}
		switch rr.Logger {
		case 5, 6:
			under := &bytes.Buffer{}
			size := 4096
			if rr.Logger == 6 {
				size = 16
			}
			bw := bufio.NewWriterSize(under, size)
			w.sut.Logger = bw
			std = func() string { bw.Flush(); return under.String() }
		case 7:
			b := &bytes.Buffer{}
			w.sut.Logger = b
			std = b.String
		default:
			b := &strings.Builder{}
			w.sut.Logger = b
			std = b.String
		}
	} else if rr.Logger == 2 {
		l := &c14RCLogger{c14Logger{sys: w.sut, events: &events, rc: true}}
		lg = &l.c14Logger
		w.sut.Logger = l
	} else {
		lg = &c14Logger{sys: w.sut, events: &events}
		if rr.Logger == 3 {
			lg.detachAfter = 2
		}
		if rr.Logger == 4 {
			lg.failAfter = 2
		}
		w.sut.Logger = lg
	}
	gotRes, pnS := run(w.sut, &events)
	if pnS != nil {
		w.skipped = true
		if _, ok := pnS.(c12Sentinel); ok {
			return "unexplained:logger-perturbs-execution", fmt.Sprintf("with a logger RunUntil does not come back (more than %d instructions), without one it does | %s", limit, desc())
		}
		return "unexplained:logger-perturbs-execution", fmt.Sprintf("with a logger RunUntil panics: %v; without one it returns | %s", pnS, desc())
	}
	if gotRes != wantRes {
		w.skipped = true
		return "unexplained:logger-perturbs-execution", fmt.Sprintf("RunUntil returns %v with a logger, %v without | %s", gotRes, wantRes, desc())
	}
	if a, b := c12Snapshot(w.sut), c12Snapshot(w.twin); a != b {
		w.skipped = true
		return "unexplained:logger-perturbs-execution", fmt.Sprintf("final state with a logger %v, without %v | %s", a, b, desc())
	}
	if !bytes.Equal(w.sut.WRAM[:], w.twin.WRAM[:]) || !bytes.Equal(w.sut.SRAM[:], w.twin.SRAM[:]) || !bytes.Equal(w.sut.ROM[:0x10000], w.twin.ROM[:0x10000]) {
		w.skipped = true
		return "unexplained:logger-perturbs-execution", "final memory with a logger differs from the run without one | " + desc()
	}
	for _, n := range lg.reserved {
		if n < 0 {
			return "unexplained:logger-reserve-negative", fmt.Sprintf("the logger was asked to Reserve(%d) | %s", n, desc())
		}
	}
	if lg.rc && (lg.committed != 1 || len(lg.reserved) != 1) {
		return "unexplained:logger-reserve-commit", fmt.Sprintf("Reserve called %v times, Commit %d times, want once each | %s", lg.reserved, lg.committed, desc())
	}
	// lines: each was judged truthful or not when it was written. One line per instruction: re-execute the
	// program by hand on the (re-prepared) twin, one Step per line -- every line must stand at the
	// instruction the hand execution is about to execute, and the logged run must have ended either after
	// all of them or with the last announced instruction not executed (RunUntil announces, then decides).
	var lines []c14Event
	for _, ev := range events {
		if ev.line {
			lines = append(lines, ev)
		}
	}
	if std != nil {
		w.sut.Logger = nil
		if text := std(); text != "" {
			if !strings.HasSuffix(text, "\n") {
				return "unexplained:trace-text-unterminated", fmt.Sprintf("the text collected by the standard-library sink does not end in a newline: %q | %s", text[len(text)-min(len(text), 60):], desc())
			}
			for _, t := range strings.Split(strings.TrimSuffix(text, "\n"), "\n") {
				lines = append(lines, c14Event{line: true, pc: c14LateJudged, text: t})
			}
		}
	}
	final := c12Snapshot(w.sut)
	c12Prepare(w.twin, rr)
	before := c12Snapshot(w.twin)
	for i, ev := range lines {
		if ev.bad != "" {
			return "unexplained:trace-" + strings.SplitN(ev.bad, ":", 2)[0] + ":RunUntil", fmt.Sprintf("trace line %d %q written before the instruction at $%06x: %s | %s", i, ev.text, ev.pc, ev.bad, desc())
		}
		if ev.pc == c14LateJudged {
			// judged now, against the state of the hand execution about to execute the i-th instruction
			if kind, wt := checkTraceLine(ev.text+"\n", c14PreState(&w.twin.CPU), func(a uint32) byte { return w.twin.Bus.EaRead(a) }, true); kind != "" {
				w.skipped = true
				return "unexplained:trace-" + kind + ":RunUntil", fmt.Sprintf("line %d of the text a standard-library sink collected, %q, does not describe the %d-th instruction to execute (at $%06x): %s | %s", i, ev.text, i, w.twin.GetPC(), wt, desc())
			}
		} else if w.twin.GetPC() != ev.pc {
			w.skipped = true
			return "unexplained:trace-line-out-of-step", fmt.Sprintf("trace line %d %q stands at $%06x, the %d-th instruction to execute is at $%06x | %s", i, ev.text, ev.pc, i, w.twin.GetPC(), desc())
		}
		before = c12Snapshot(w.twin)
		if n, _ := w.twin.CPU.Step(); n < 1 {
			w.skipped = true
			return "", ""
		}
	}
	if lg.failAfter > 0 && lg.lines >= lg.failAfter {
		return "", "" // the sink failed: what was traced after that is not judged, only that the run was not disturbed
	}
	if lg.detachAfter > 0 && lg.lines >= lg.detachAfter {
		return "", "" // the logger took itself off: the run went on untraced, the line count says nothing
	}
	if after := c12Snapshot(w.twin); final != after && final != before {
		w.skipped = true
		return "unexplained:trace-line-count", fmt.Sprintf("the trace has %d lines, but the logged run ended in a state that is neither the one after %d instructions nor the one after %d: %v | %s", len(lines), len(lines), len(lines)-1, final, desc())
	}
	// (if the last announced instruction was not executed, the twin is one instruction ahead: the alphabet's
	// instructions write WRAM only, which every scenario clears)
	return "", ""
}

func c14EvString(e c14Event) string {
	if e.line {
		return fmt.Sprintf("the line %q for $%06x", e.text, e.pc)
	}
	return fmt.Sprintf("the fetch at $%06x", e.pc)
}

func replayC14(raw json.RawMessage) (string, error) {
	var rr c12Run
	if json.Unmarshal(raw, &rr) == nil && len(rr.Prog) > 0 {
		w, err := c12NewWorld()
		if err != nil {
			return "", err
		}
		sig, what := c14RunCheck(w, rr)
		if sig == "" {
			return "the logged run equals the unlogged run and every trace line is truthful when written", nil
		}
		return what, fmt.Errorf("%s", sig)
	}
	var c cpuCase
	if err := json.Unmarshal(raw, &c); err != nil {
		return "", err
	}
	sig, what := c14StepCheck(newCPUCtx(), &c)
	if sig == "" {
		return "all three renderers are truthful for this state and leave it untouched", nil
	}
	return what, fmt.Errorf("%s", sig)
}

func runC14(r *report.Run) {
	thorough := r.Tier == "thorough"
	o := cpuSweepOpts{thorough: thorough, withE: true, seed: r.Seed}
	var total int64
	counts := cpuEnumerate(o, nil, func(x *cpuCtx, c *cpuCase) {
		if c.Sweep == "addressing" || c.Sweep == "frame2" {
			return // the renderers never look at pointers or data; fetch/operation/flags/frame1 cover their inputs
		}
		atomic.AddInt64(&total, 1)
		if sig, what := c14StepCheck(x, c); sig != "" {
			r.Violation(sig, what, *c)
		}
	})
	// all 256 displacements of every rel8 opcode at page/bank edge locations; rel16 boundary set
	{
		x := newCPUCtx()
		locs := [][2]uint32{{0, 0x8010}, {0, 0x0000}, {0, 0xFFFE}, {0x7E, 0x00FF}, {0xFF, 0xFF80}, {1, 0x7FFF}}
		for op := 0; op < 256; op++ {
			e := ref65816.Table[op]
			if e.Mode != ref65816.Rel && e.Mode != ref65816.Rll {
				continue
			}
			for _, l := range locs {
				for d := 0; d < 256; d++ {
					his := []int{0}
					if e.Mode == ref65816.Rll {
						his = []int{0x00, 0x01, 0x7F, 0x80, 0xFE, 0xFF}
					}
					for _, hi := range his {
						c := cpuDefaultCase(byte(op))
						c.S.K, c.S.PC = byte(l[0]), uint16(l[1])
						c.Opnd = [3]byte{byte(d), byte(hi), 0}
						c.Sweep = "displacements"
						total++
						if sig, what := c14StepCheck(x, &c); sig != "" {
							r.Violation(sig, what, c)
						}
					}
				}
			}
		}
	}
	// logged runs
	budgets := []uint64{0, 1, 3, 8, 50}
	pdepth := 2
	if thorough {
		pdepth = 3
	}
	runs := c12Scenarios(pdepth, []int{1, 2}, budgets)
	// a logger that takes itself off the System after two lines (budgets that allow more than two instructions)
	for _, rr := range c12Scenarios(pdepth, []int{3, 4}, []uint64{8, 50}) {
		runs = append(runs, rr)
	}
	// sinks of the standard library: bufio.Writer (default size and 16 bytes), bytes.Buffer, strings.Builder
	for _, rr := range c12Scenarios(pdepth, []int{5, 6, 7, 8}, []uint64{8, 50}) {
		runs = append(runs, rr)
	}
	// long runs: budgets beyond the logger's reservation clamp ($100 cycles), on programs that loop
	for _, prog := range [][]string{{"BRA -2"}, {"INX", "BRA -3"}, {"LDA #$1234", "PHA", "PLA", "BNE -3"}, {"DEX", "BNE -3", "STP"}} {
		for _, start := range []uint32{0x7E2000, 0x008000} {
			for _, b := range []uint64{0xFF, 0x100, 0x101, 300, 1000} {
				for _, lg := range []int{1, 2, 5, 6, 7, 8} {
					runs = append(runs, c12Run{Prog: prog, Start: start, Target: 0x7E3000, Budget: b, Logger: lg})
				}
			}
		}
	}
	// "no limit" budgets (2^63, 2^64-1) towards targets that are reached
	for _, prog := range [][]string{{"NOP", "INX", "LDA #$1234", "STA $10", "NOP"}, {"LDA #$1234", "PHA", "PLA", "JSR next", "RTS"}} {
		for _, start := range []uint32{0x7E2000, 0x008000} {
			_, bounds, _ := c12Assemble(prog, start)
			for _, t := range bounds {
				for _, b := range []uint64{1 << 63, ^uint64(0), 1<<63 - 1, 1 << 32} {
					for _, lg := range []int{1, 2} {
						runs = append(runs, c12Run{Prog: prog, Start: start, Target: t, Budget: b, Logger: lg})
					}
				}
			}
		}
	}
	c12Watchdog(r, "C14", 120*time.Second)
	worlds := make([]*c12World, par.Workers())
	var executed, lines int64
	par.For(len(runs), func(wk, i int) {
		if worlds[wk] == nil {
			w, err := c12NewWorld()
			if err != nil {
				r.Violation("unexplained:create-emulator", err.Error(), nil)
				return
			}
			worlds[wk] = w
		}
		sig, what := c14RunCheck(worlds[wk], runs[i])
		atomic.AddInt64(&executed, 1)
		if sig != "" {
			r.Violation(sig, what, runs[i])
		}
	})
	_ = lines
	r.Set("single_step_cases_by_sweep", counts)
	r.Set("renderers", []string{"cpu65c816.DisassembleCurrentPC", "cpualt.DisassembleCurrentPC", "cpualt.Disassemble"})
	r.Set("logged_runs", map[string]interface{}{"scenarios_executed": executed, "program_depth": pdepth, "budgets": budgets, "logger_kinds": []string{"plain io.Writer", "Writer+Reserve+Commit", "self-detaching", "failing", "*bufio.Writer (4096 and 16 bytes)", "*bytes.Buffer", "*strings.Builder"}})
	r.Set("states", total+executed)
	r.Set("transitions", 3*total+executed)
	r.Set("traces_validated_against_impl", 3*total+executed)
	r.Set("evaluations", 3*total+executed)
	r.Set("distinct_nontrivial", total)
	for i, cs := range cpuSampled {
		if i%8 == 0 {
			r.Sample(cs)
		}
	}
	r.Set("rule", "truthfulness: for every case of the fetch/operation/flag/frame sweeps (all opcodes, all m/x, E, operand alphabets, bank-end locations), all 256 displacements of every rel8 opcode and a rel16 boundary set at 6 locations, each of the three trace renderers is called on the real CPU and its line parsed: bank:address, byte column, mnemonic, operand digits, addressing-mode features (brackets, index letters inside/outside, '#', digit counts), branch destination, register and flag columns; the call must leave all registers, flags, cycle totals and memory untouched. non-perturbation along programs: every RunUntil scenario (programs to depth 2 (3), all targets, budgets) with a plain and a Reserve/Commit logger must end exactly like the unlogged hand-stepped twin and log exactly one truthful line per instruction about to execute")
	r.Assume("cosmetic syntax (spacing, case, separators, 'Sn' for the stack register) is not pinned; the structural features of standard 65816 operand syntax are")
	c := cpuDefaultCase(0xD0)
	c.Opnd[0] = 0xFE
	c.S.PC = 0x8010
	r.Sample(c.String())
}
