package checks

import (
	"encoding/json"
	"fmt"
	"os"
	"os/exec"
	"strconv"
	"strings"
	"sync/atomic"

	"github.com/alttpo/snes/color15"

	"verif/internal/par"
	"verif/internal/report"
)

func init() {
	Registry["C17"] = Check{Level: "exploration", Run: runC17, Replay: replayC17}
}

type c17Case struct {
	Op    string `json:"op"`
	Color uint16 `json:"color"`
	Mul   uint8  `json:"mul"`
	Div   uint8  `json:"div"`
	R     uint8  `json:"r"`
	G     uint8  `json:"g"`
	B     uint8  `json:"b"`
}

func c17RefMulDiv(c uint16, m, d uint8) uint16 {
	ch := func(v int) int {
		q := v * int(m) / int(d)
		if q > 31 {
			q = 31
		}
		return q
	}
	return uint16(ch(int(c>>10&31))<<10 | ch(int(c>>5&31))<<5 | ch(int(c&31)))
}

// alternative model of defect F17: quotient narrowed to 8 bits before the clamp.
func c17NarrowMulDiv(c uint16, m, d uint8) uint16 {
	ch := func(v int) int {
		q := int(uint8(v * int(m) / int(d)))
		if q > 31 {
			q = 31
		}
		return q
	}
	return uint16(ch(int(c>>10&31))<<10 | ch(int(c>>5&31))<<5 | ch(int(c&31)))
}

func c17CheckOne(cs c17Case) (sig, what string) {
	switch cs.Op {
	case "muldiv":
		got := uint16(color15.Color(cs.Color).MulDiv(cs.Mul, cs.Div))
		want := c17RefMulDiv(cs.Color, cs.Mul, cs.Div)
		if got != want {
			sig = "unexplained:muldiv"
			if got == c17NarrowMulDiv(cs.Color, cs.Mul, cs.Div) {
				sig = "muldiv-narrows-before-clamp"
			}
			return sig, fmt.Sprintf("Color($%04x).MulDiv(%d,%d) = $%04x, want $%04x (per channel min(31, floor(ch*m/d)))", cs.Color, cs.Mul, cs.Div, got, want)
		}
	case "unpack-pack":
		r, g, b := color15.Color(cs.Color).ToRGB()
		got := uint16(color15.ToColor15(r, g, b))
		if got != cs.Color&0x7FFF || r > 31 || g > 31 || b > 31 ||
			r != uint8(cs.Color&31) || g != uint8(cs.Color>>5&31) || b != uint8(cs.Color>>10&31) {
			return "unexplained:unpack-pack", fmt.Sprintf("Color($%04x).ToRGB() = (%d,%d,%d), repacked $%04x, want $%04x", cs.Color, r, g, b, got, cs.Color&0x7FFF)
		}
	case "pack-unpack":
		c := color15.ToColor15(cs.R, cs.G, cs.B)
		r, g, b := c.ToRGB()
		if r != cs.R&31 || g != cs.G&31 || b != cs.B&31 || uint16(c)&0x8000 != 0 {
			return "unexplained:pack-unpack", fmt.Sprintf("ToColor15(%d,%d,%d)=$%04x unpacks to (%d,%d,%d)", cs.R, cs.G, cs.B, uint16(c), r, g, b)
		}
	case "first-divisor":
		// a fresh process whose first MulDiv call uses divisor cs.Div (what a process does first must not
		// specialise the function): the child sweeps all colours and multiplicands for that divisor
		out, err := c17SpawnChild(cs.Div)
		if err != nil {
			return "oracle-broken", "child process: " + err.Error()
		}
		if !strings.HasPrefix(out, "FIRSTDIV-OK") {
			return "unexplained:muldiv-depends-on-first-call", fmt.Sprintf("in a fresh process whose first MulDiv call has divisor %d: %s", cs.Div, strings.TrimSpace(out))
		}
	case "muldiv-twice":
		// the identical call made twice in a row (a palette with a run of equal entries)
		_ = color15.Color(cs.Color).MulDiv(cs.Mul, cs.Div)
		got := uint16(color15.Color(cs.Color).MulDiv(cs.Mul, cs.Div))
		if want := c17RefMulDiv(cs.Color, cs.Mul, cs.Div); got != want {
			return "unexplained:muldiv-repeated-call", fmt.Sprintf("Color($%04x).MulDiv(%d,%d) called twice in a row: the second call gives $%04x, want $%04x", cs.Color, cs.Mul, cs.Div, got, want)
		}
	case "unpack-pack-twice":
		color15.Color(cs.Color).ToRGB()
		r, g, b := color15.Color(cs.Color).ToRGB()
		color15.ToColor15(r, g, b)
		got := uint16(color15.ToColor15(r, g, b))
		l1 := color15.Color(cs.Color).Luminosity()
		l2 := color15.Color(cs.Color).Luminosity()
		if got != cs.Color&0x7FFF || r != uint8(cs.Color&31) || g != uint8(cs.Color>>5&31) || b != uint8(cs.Color>>10&31) || l1 != l2 {
			return "unexplained:repeated-call", fmt.Sprintf("Color($%04x): ToRGB, ToColor15 and Luminosity each called twice in a row: second results (%d,%d,%d), $%04x, %d (first Luminosity %d)", cs.Color, r, g, b, got, l2, l1)
		}
	case "muldiv-after-zero-divisor":
		// valid call (G,B), failed call (R,0) recovered, then the call under test
		_ = color15.Color(cs.Color).MulDiv(cs.G, cs.B)
		func() {
			defer func() { _ = recover() }()
			_ = color15.Color(cs.Color).MulDiv(cs.R, 0)
		}()
		got := uint16(color15.Color(cs.Color).MulDiv(cs.Mul, cs.Div))
		if want := c17RefMulDiv(cs.Color, cs.Mul, cs.Div); got != want {
			return "unexplained:muldiv-after-recovered-panic", fmt.Sprintf("Color($%04x): MulDiv(%d,%d), then a recovered MulDiv(%d,0), then MulDiv(%d,%d) = $%04x, want $%04x", cs.Color, cs.G, cs.B, cs.R, cs.Mul, cs.Div, got, want)
		}
	case "luminosity":
		l := color15.Color(cs.Color).Luminosity()
		want := uint8((int(cs.Color&31) + int(cs.Color>>5&31) + int(cs.Color>>10&31)) / 3)
		if l != want {
			return "unexplained:luminosity", fmt.Sprintf("Color($%04x).Luminosity() = %d, want %d", cs.Color, l, want)
		}
	}
	return "", ""
}

func c17SpawnChild(d uint8) (string, error) {
	cmd := exec.Command(os.Args[0], "C17-child")
	cmd.Env = append(os.Environ(), fmt.Sprintf("VERIF_C17_FIRST_DIV=%d", d))
	out, err := cmd.Output()
	if err != nil && len(out) == 0 {
		return "", err
	}
	return string(out), nil
}

// C17FirstDivChild is the body of the child process: its very first MulDiv call has the given divisor.
func C17FirstDivChild(ds string) int {
	d, err := strconv.Atoi(ds)
	if err != nil || d < 1 || d > 255 {
		fmt.Println("FIRSTDIV-ERR bad divisor", ds)
		return 2
	}
	_ = color15.Color(0x7FFF).MulDiv(1, uint8(d))
	for _, dd := range []int{d, d ^ 1, 255, 1} {
		if dd == 0 {
			continue
		}
		for c := 0; c < 1<<16; c++ {
			if dd != d && c&0x3FF != 0x2A5 && c != 0x7FFF {
				continue
			}
			for m := 0; m < 256; m++ {
				got := uint16(color15.Color(c).MulDiv(uint8(m), uint8(dd)))
				if want := c17RefMulDiv(uint16(c), uint8(m), uint8(dd)); got != want {
					fmt.Printf("FIRSTDIV-BAD Color($%04x).MulDiv(%d,%d) = $%04x, want $%04x\n", c, m, dd, got, want)
					return 0
				}
			}
		}
	}
	fmt.Println("FIRSTDIV-OK")
	return 0
}

func replayC17(raw json.RawMessage) (string, error) {
	var cs c17Case
	if err := json.Unmarshal(raw, &cs); err != nil {
		return "", err
	}
	sig, what := c17CheckOne(cs)
	if sig != "" {
		return what, fmt.Errorf("%s", sig)
	}
	return "agrees with the reference", nil
}

func runC17(r *report.Run) {
	var evals, nontrivial, saturated int64
	// what a process does FIRST: 255 child processes, the first MulDiv call of each with another divisor
	var firstDiv int64
	par.For(255, func(_, i int) {
		cs := c17Case{Op: "first-divisor", Div: uint8(i + 1)}
		atomic.AddInt64(&firstDiv, 1)
		if sig, what := c17CheckOne(cs); sig == "oracle-broken" {
			r.Incomplete(what) // the child could not be started: not a verdict about the library
		} else if sig != "" {
			r.Violation(sig, what, cs)
		}
	})
	r.Set("fresh_processes_by_first_divisor", firstDiv)
	// the short history facets come first: if one of them reports, the full-domain sweeps are skipped
	// (a change that makes every call slow must not keep the check from reporting)
	var twice int64
	par.For(256, func(_, m int) {
		for d := 1; d < 256; d++ {
			for _, c := range []uint16{0x7FFF, 0x1234, 0xDA96} {
				cs := c17Case{Op: "muldiv-twice", Color: c, Mul: uint8(m), Div: uint8(d)}
				atomic.AddInt64(&twice, 2)
				if sig, what := c17CheckOne(cs); sig != "" {
					r.Violation(sig, what, cs)
					return
				}
			}
		}
	})
	r.Set("calls_repeated_in_first_phase", twice)
	// a call that panicked (divisor zero) and was recovered by the caller leaves nothing behind: the next
	// valid call gives the reference result, whatever valid call came before the failed one. Every
	// (multiplicand, divisor) pair, two colours; before it a valid call with a neighbouring multiplicand or
	// divisor, then a failed call with this or the other multiplicand.
	var afterPanic int64
	par.For(256, func(_, m int) {
		var ev int64
		for d := 1; d < 256; d++ {
			for _, c := range []uint16{0x7FFF, 0xDA96} {
				for _, prime := range [][2]int{{m ^ 1, d}, {m, d ^ 1}, {m ^ 0x80, d ^ 0x80}} {
					if prime[1] == 0 {
						continue
					}
					for _, fm := range []int{m, d} {
						cs := c17Case{Op: "muldiv-after-zero-divisor", Color: c, Mul: uint8(m), Div: uint8(d), R: uint8(fm), G: uint8(prime[0]), B: uint8(prime[1])}
						ev++
						if sig, what := c17CheckOne(cs); sig != "" {
							r.Violation(sig, what, cs)
							return
						}
					}
				}
			}
		}
		atomic.AddInt64(&afterPanic, ev)
	})
	if r.NSignatures() > 0 {
		r.Incomplete("the history facets (repeated call, call after a recovered failure) reported violations; the full-domain sweeps were not run")
		r.Set("evaluations", twice+afterPanic)
		r.Set("exhaustive", false)
		return
	}
	// MulDiv: the whole domain, 2^16 colours x 256 multiplicands x 255 divisors.
	par.For(1<<16, func(_, ci int) {
		c := uint16(ci)
		var ev, nt, sat int64
		reported := 0
		var further int64
		report := func(sig, what string, cs c17Case) {
			// a defect typically hits millions of triples: describe the first few per colour, count the rest
			if reported < 4 {
				r.Violation(sig, what, cs)
			} else {
				further++
			}
			reported++
		}
		for d := 1; d < 256; d++ {
			var prev uint16
			for m := 0; m < 256; m++ {
				got := uint16(color15.Color(c).MulDiv(uint8(m), uint8(d)))
				want := c17RefMulDiv(c, uint8(m), uint8(d))
				ev += 2
				if again := uint16(color15.Color(c).MulDiv(uint8(m), uint8(d))); again != want && got == want {
					cs := c17Case{Op: "muldiv-twice", Color: c, Mul: uint8(m), Div: uint8(d)}
					sig, what := c17CheckOne(cs)
					if sig == "" {
						sig, what = "unexplained:muldiv-repeated-call", fmt.Sprintf("Color($%04x).MulDiv(%d,%d) called twice in a row: $%04x then $%04x", c, m, d, got, again)
					}
					report(sig, what, cs)
				}
				if want != c&0x7FFF {
					nt++
				}
				if got != want {
					if reported < 4 {
						sig, what := c17CheckOne(c17Case{Op: "muldiv", Color: c, Mul: uint8(m), Div: uint8(d)})
						report(sig, what, c17Case{Op: "muldiv", Color: c, Mul: uint8(m), Div: uint8(d)})
					} else {
						reported++
						further++
					}
				}
				if got&0x8000 != 0 || got&31 > 31 {
					report("unexplained:bit15", fmt.Sprintf("Color($%04x).MulDiv(%d,%d) = $%04x sets bit 15", c, m, d, got), c17Case{Op: "muldiv", Color: c, Mul: uint8(m), Div: uint8(d)})
				}
				// a larger ratio never darkens a channel: monotone in m for fixed d (checked on the implementation itself)
				if m > 0 && (got&31 < prev&31 || got>>5&31 < prev>>5&31 || got>>10&31 < prev>>10&31) {
					sig := "unexplained:not-monotone-in-multiplicand"
					if got == c17NarrowMulDiv(c, uint8(m), uint8(d)) && prev == c17NarrowMulDiv(c, uint8(m-1), uint8(d)) {
						sig = "muldiv-narrows-before-clamp"
					}
					report(sig, fmt.Sprintf("Color($%04x).MulDiv(%d,%d)=$%04x darker than MulDiv(%d,%d)=$%04x", c, m, d, got, m-1, d, prev), c17Case{Op: "muldiv", Color: c, Mul: uint8(m), Div: uint8(d)})
				}
				prev = got
				if m == d && got != c&0x7FFF && want == c&0x7FFF {
					// identity is part of the closed form; reported through the comparison above
					_ = got
				}
				if int(c&31)*m/d > 31 || int(c>>5&31)*m/d > 31 || int(c>>10&31)*m/d > 31 {
					sat++
				}
			}
		}
		// monotone in 1/d for fixed m
		for m := 0; m < 256; m++ {
			var prev uint16
			for d := 255; d >= 1; d-- {
				got := uint16(color15.Color(c).MulDiv(uint8(m), uint8(d)))
				ev++
				if d < 255 && (got&31 < prev&31 || got>>5&31 < prev>>5&31 || got>>10&31 < prev>>10&31) {
					sig := "unexplained:not-monotone-in-divisor"
					if got == c17NarrowMulDiv(c, uint8(m), uint8(d)) && prev == c17NarrowMulDiv(c, uint8(m), uint8(d+1)) {
						sig = "muldiv-narrows-before-clamp"
					}
					report(sig, fmt.Sprintf("Color($%04x).MulDiv(%d,%d)=$%04x darker than MulDiv(%d,%d)=$%04x", c, m, d, got, m, d+1, prev), c17Case{Op: "muldiv", Color: c, Mul: uint8(m), Div: uint8(d)})
				}
				prev = got
			}
		}
		for _, op := range []string{"unpack-pack", "luminosity", "unpack-pack-twice"} {
			cs := c17Case{Op: op, Color: c}
			ev++
			if sig, what := c17CheckOne(cs); sig != "" {
				report(sig, what, cs)
			}
		}
		if further > 0 {
			r.Add("further_violating_cases_not_described", further)
		}
		atomic.AddInt64(&evals, ev)
		atomic.AddInt64(&nontrivial, nt)
		atomic.AddInt64(&saturated, sat)
	})
	// pack -> unpack: all 2^24 channel triples
	par.For(256, func(_, ri int) {
		var ev int64
		for g := 0; g < 256; g++ {
			for b := 0; b < 256; b++ {
				cs := c17Case{Op: "pack-unpack", R: uint8(ri), G: uint8(g), B: uint8(b)}
				ev++
				c := color15.ToColor15(cs.R, cs.G, cs.B)
				rr, gg, bb := c.ToRGB()
				if rr != cs.R&31 || gg != cs.G&31 || bb != cs.B&31 || uint16(c)&0x8000 != 0 {
					sig, what := c17CheckOne(cs)
					r.Violation(sig, what, cs)
				}
			}
		}
		atomic.AddInt64(&evals, ev)
	})
	evals += afterPanic
	r.Set("calls_after_recovered_zero_divisor", afterPanic)
	r.Set("evaluations", evals)
	r.Set("distinct_nontrivial", nontrivial)
	r.Set("muldiv_triples_with_saturation", saturated)
	r.Set("rule", "every (colour, multiplicand, divisor) triple of the whole domain 2^16 x 256 x 255 twice in a row for the closed-form comparison (the repeated call must give the same result) and once more for monotonicity in the divisor, all 2^16 colours for unpack/pack and luminosity, all 2^24 (r,g,b) for pack/unpack; every (multiplicand, divisor) again right after a recovered call with divisor zero; a MulDiv triple is non-trivial when the expected result differs from the input colour (all triples are distinct by construction)")
	r.Set("exhaustive", true)
	r.Sample(c17Case{Op: "muldiv", Color: 0x0002, Mul: 128, Div: 1})
	r.Sample(c17Case{Op: "muldiv", Color: 0x7FFF, Mul: 255, Div: 254})
	r.Sample(c17Case{Op: "pack-unpack", R: 255, G: 32, B: 31})
	r.Assume("the reference closed form min(31, floor(ch*m/d)) is computed in Go int arithmetic")
}
