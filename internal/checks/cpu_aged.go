package checks

import (
	"encoding/json"
	"fmt"
	"strings"
	"sync/atomic"

	"verif/internal/par"
	"verif/internal/ref65816"
	"verif/internal/report"
)

// Aged CPU objects. The same CPU objects execute many Steps in a row (the state is reloaded between
// Steps, the objects are not re-created): whatever an interpreter keeps per object besides the
// architectural state -- a call depth, a history buffer, a counter -- must not make a later Step behave
// differently. The histories are dealt to 16 chains, each chain runs on one pair of CPU objects from first
// to last; a failure is replayed by running its chain again from the start on fresh objects (a single Step
// on fresh objects -- what the other replays do -- cannot show such a defect, which is why the sweeps'
// own observations of it are dropped by the confirm-in-isolation step).
type cpuAgedHist struct {
	Ops    []byte
	Repeat int
	E      bool
}

type cpuAgedCase struct {
	AgedChain int  `json:"aged_chain"` // 1..16
	Upto      int  `json:"upto_history"`
	Thorough  bool `json:"thorough"`
	WithE     bool `json:"with_e"`
}

const cpuAgedChains = 16

type cpuAgedCheck func(x *cpuCtx, c *cpuCase) (sig, what string)

func cpuAgedChain(c cpuAgedCase) (out []cpuAgedHist) {
	rep := 300
	if c.Thorough {
		rep = 70000
	}
	var all []cpuAgedHist
	es := []bool{false}
	if c.WithE {
		es = append(es, true)
	}
	for _, e := range es {
		for op := 0; op < 256; op++ {
			all = append(all, cpuAgedHist{[]byte{byte(op)}, rep, e})
		}
		// pairs over the stack / control-transfer / interrupt opcodes
		var sub []byte
		for op := 0; op < 256; op++ {
			switch ref65816.Table[op].Mn {
			case "JSR", "JSL", "RTS", "RTL", "RTI", "BRK", "COP", "PHA", "PLA", "PHP", "PLP", "PEA", "PER", "PHK", "PLB", "PHD", "PLD", "JMP", "JML", "WDM", "XCE", "MVN", "MVP", "BRA", "BRL":
				sub = append(sub, byte(op))
			}
		}
		for _, a := range sub {
			for _, b := range sub {
				if a != b {
					all = append(all, cpuAgedHist{[]byte{a, b}, 300, e})
				}
			}
		}
	}
	for i, h := range all {
		if i%cpuAgedChains == c.AgedChain-1 {
			out = append(out, h)
		}
	}
	return
}

// cpuAgedRun runs chain c.AgedChain up to history c.Upto (all of it if Upto < 0); it stops at the first failure.
func cpuAgedRun(c cpuAgedCase, check cpuAgedCheck) (sig, what string, at int, steps int64) {
	x := newCPUCtx()
	for hi, h := range cpuAgedChain(c) {
		if c.Upto >= 0 && hi > c.Upto {
			break
		}
		for i := 0; i < h.Repeat; i++ {
			for _, op := range h.Ops {
				cs := cpuDefaultCase(op)
				cs.S.E = h.E
				cs.normalise()
				sg, w := check(x, &cs)
				steps += 2
				if sg != "" && !strings.HasPrefix(sg, "unexplained:") {
					continue // a recorded known finding, reported by the sweeps
				}
				if sg != "" {
					return "unexplained:aged-cpu:" + strings.TrimPrefix(sg, "unexplained:"), fmt.Sprintf("chain %d of Steps on the same CPU objects, history %d (opcodes % x executed over and over, E=%v), round %d of %d: %s", c.AgedChain, hi, h.Ops, h.E, i+1, h.Repeat, w), hi, steps
				}
			}
		}
	}
	return "", "", -1, steps
}

func cpuAgedAll(r *report.Run, thorough, withE bool, check cpuAgedCheck) (steps int64) {
	var hist int64
	par.For(cpuAgedChains, func(_, i int) {
		c := cpuAgedCase{AgedChain: i + 1, Upto: -1, Thorough: thorough, WithE: withE}
		sig, what, at, n := cpuAgedRun(c, check)
		atomic.AddInt64(&steps, n)
		atomic.AddInt64(&hist, int64(len(cpuAgedChain(c))))
		if sig != "" {
			c.Upto = at
			r.Violation(sig, what, c)
		}
	})
	r.Set("aged_cpu", map[string]interface{}{"chains": cpuAgedChains, "histories": hist, "steps_executed": steps,
		"rule": "every opcode, and every ordered pair of the stack / control-transfer / interrupt opcodes, executed 300 times over (thorough: single opcodes 70000 times) on the same pair of CPU objects, state reloaded in between, the property's single-step oracle applied to every Step"})
	return
}

// cpuAgedReplay: ok is false when raw is not an aged-chain case.
func cpuAgedReplay(raw json.RawMessage, check cpuAgedCheck) (ok bool, what string, err error) {
	var ac cpuAgedCase
	if json.Unmarshal(raw, &ac) != nil || ac.AgedChain <= 0 {
		return false, "", nil
	}
	sig, w, _, _ := cpuAgedRun(ac, check)
	if sig == "" {
		return true, "every Step of the chain satisfies the single-step oracle", nil
	}
	return true, w, fmt.Errorf("%s", sig)
}
