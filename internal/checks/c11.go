package checks

import (
	"bytes"
	"encoding/json"
	"fmt"
	"sort"
	"sync"

	"github.com/alttpo/snes/emulator"
	"github.com/alttpo/snes/mapping/lorom"

	"verif/internal/refmap"
	"verif/internal/report"
)

func init() {
	Registry["C11"] = Check{GC: 25, Level: "exploration", Run: runC11, Replay: replayC11}
}

type c11Case struct {
	Op   string `json:"op"` // "read" | "write"
	Addr uint32 `json:"addr"`
	End  uint32 `json:"end,omitempty"` // "dump": last address of the block
}

func c11NewSystem() (*emulator.System, error) {
	s := &emulator.System{}
	if err := s.CreateEmulator(); err != nil {
		return nil, err
	}
	return s, nil
}

// location id: class in the top nibble, array offset below
func c11Fill(s *emulator.System, k uint) {
	for i := range s.ROM {
		s.ROM[i] = byte((uint32(refmap.ROM)<<28 | uint32(i)) >> (8 * k))
	}
	for i := range s.SRAM {
		s.SRAM[i] = byte((uint32(refmap.SRAM)<<28 | uint32(i)) >> (8 * k))
	}
	for i := range s.WRAM {
		s.WRAM[i] = byte((uint32(refmap.WRAM)<<28 | uint32(i)) >> (8 * k))
	}
}

func c11Read(s *emulator.System, a uint32) (v byte, panicked bool) {
	defer func() {
		if recover() != nil {
			panicked = true
		}
	}()
	return s.Bus.EaRead(a), false
}

func c11Write(s *emulator.System, a uint32, v byte) (panicked bool) {
	defer func() {
		if recover() != nil {
			panicked = true
		}
	}()
	s.Bus.EaWrite(a, v)
	return false
}

// what the mapper says: class and array offset
func c11Mapper(a uint32) (refmap.Class, uint32) {
	p, err := lorom.BusAddressToPak(a)
	if err != nil {
		return refmap.Unmapped, 0
	}
	c := refmap.StrictClassOfPak(p)
	return c, p - refmap.ClassBase[c]
}

// c11ConsoleWindow: is the bus address inside one of the memory windows the emulated console
// documents (CreateEmulator: ROM in the upper half of banks $00-$3F/$80-$BF, SRAM in the lower half
// of banks $70.. and $F0.. for as many 32 KiB banks as the SRAM array holds, WRAM in $7E-$7F and
// the low 8 KiB of banks $00-$3F/$80-$BF)? Only membership is taken from this table; which cell
// backs the address is the mapper's word.
func c11ConsoleWindow(a uint32, sramBanks uint32) bool {
	b, o := a>>16, a&0xFFFF
	sys := b <= 0x3F || (b >= 0x80 && b <= 0xBF)
	switch {
	case b == 0x7E || b == 0x7F:
		return true
	case sys && o >= 0x8000:
		return true
	case sys && o < 0x2000:
		return true
	case o < 0x8000 && ((b >= 0x70 && b < 0x70+sramBanks && b < 0x7E) || (b >= 0xF0 && b < 0xF0+sramBanks)):
		return true
	}
	return false
}

func c11Array(s *emulator.System, c refmap.Class) []byte {
	switch c {
	case refmap.ROM:
		return s.ROM[:]
	case refmap.SRAM:
		return s.SRAM[:]
	case refmap.WRAM:
		return s.WRAM[:]
	}
	return nil
}

// identify which array cell backs each bus address: ids[a] (0 = not backed by an array / unattached)
func c11Identify() ([]uint32, []bool, error) {
	ids := make([]uint32, 1<<24)
	unatt := make([]bool, 1<<24)
	var mu sync.Mutex
	var wg sync.WaitGroup
	var ferr error
	for k := uint(0); k < 4; k++ {
		wg.Add(1)
		go func(k uint) {
			defer wg.Done()
			s, err := c11NewSystem()
			if err != nil {
				mu.Lock()
				ferr = err
				mu.Unlock()
				return
			}
			c11Fill(s, k)
			part := make([]byte, 1<<24)
			for a := uint32(0); a < 1<<24; a++ {
				v, p := c11Read(s, a)
				if p {
					if k == 0 {
						unatt[a] = true
					}
					continue
				}
				part[a] = v
			}
			mu.Lock()
			for a, v := range part {
				ids[a] |= uint32(v) << (8 * k)
			}
			mu.Unlock()
		}(k)
	}
	wg.Wait()
	return ids, unatt, ferr
}

// c11Read24Check: Bus.EaRead24_wrap (the CPU's pointer and long-operand fetch) at a must return the three
// bytes the single reads return at a, a+1, a+2 (wrapping inside the bank), under two fills (low byte of
// the location id; class byte); "" if so.
func c11Read24Check(s *emulator.System, a uint32) string {
	for _, k := range []uint{0, 3} {
		c11Fill(s, k)
		if w := c11Read24One(s, a); w != "" {
			return w
		}
	}
	return ""
}

func c11Read24One(s *emulator.System, a uint32) string {
	var want uint32
	for i := uint32(0); i < 3; i++ {
		v, p := c11Read(s, a&0xFF0000|(a+i)&0xFFFF)
		if p {
			return "" // one of the bytes is not attached: outside the property
		}
		want |= uint32(v) << (8 * i)
	}
	var got uint32
	var pn interface{}
	func() {
		defer func() { pn = recover() }()
		got = s.Bus.EaRead24_wrap(byte(a>>16), uint16(a))
	}()
	if pn != nil || got != want {
		return fmt.Sprintf("Bus.EaRead24_wrap($%02x,$%04x) = $%06x (panic %v), the three single reads give $%06x", a>>16, a&0xFFFF, got, pn, want)
	}
	return ""
}

// c11HistoryOne: a plain read at prior, a 24-bit read at q (which straddles a 16-byte cell), then plain
// accesses to the bytes of q that lie in the next cell: each must return what a plain read returns on its
// own (val/pan: the table of a plain sweep, or nil to compute it here), and a write there must be read back.
func c11HistoryOne(s *emulator.System, prior, q uint32, val []byte, pan []bool) string {
	alone := func(a uint32) (byte, bool) {
		if val != nil {
			return val[a], pan[a]
		}
		c11Read(s, a^0x10) // forget whatever the bus remembers about this cell
		return c11Read(s, a)
	}
	for d := uint32(1); d <= 2; d++ {
		y := q&0xFF0000 | (q+d)&0xFFFF
		if y>>4 == q>>4 {
			continue
		}
		wv, wp := alone(y)
		c11Read(s, prior)
		func() {
			defer func() { _ = recover() }()
			s.Bus.EaRead24_wrap(byte(q>>16), uint16(q))
		}()
		gv, gp := c11Read(s, y)
		if gp != wp || (!gp && gv != wv) {
			return fmt.Sprintf("read $%06x, then Bus.EaRead24_wrap($%02x,$%04x), then read $%06x = $%02x (panic %v); on its own that read gives $%02x (panic %v)", prior, q>>16, q&0xFFFF, y, gv, gp, wv, wp)
		}
		if wp {
			continue
		}
		c11Read(s, prior)
		func() {
			defer func() { _ = recover() }()
			s.Bus.EaRead24_wrap(byte(q>>16), uint16(q))
		}()
		if c11Write(s, y, wv^0xFF) {
			return fmt.Sprintf("read $%06x, then Bus.EaRead24_wrap($%02x,$%04x), then write $%06x panics; the read there does not", prior, q>>16, q&0xFFFF, y)
		}
		c11Read(s, y^0x10)
		back, _ := c11Read(s, y)
		c11Write(s, y, wv)
		if mc, _ := c11Mapper(y); mc != refmap.Unmapped && mc != refmap.ROM && back != wv^0xFF {
			return fmt.Sprintf("read $%06x, then Bus.EaRead24_wrap($%02x,$%04x), then write $%06x: the byte reads back $%02x, want $%02x", prior, q>>16, q&0xFFFF, y, back, wv^0xFF)
		}
	}
	return ""
}

func replayC11(raw json.RawMessage) (string, error) {
	var c c11Case
	if err := json.Unmarshal(raw, &c); err != nil {
		return "", err
	}
	mc, mo := c11Mapper(c.Addr)
	s, err := c11NewSystem()
	if err != nil {
		return "", err
	}
	if c.Op == "aged" {
		fresh, err := c11NewSystem()
		if err != nil {
			return "", err
		}
		for i := 0; i < 140; i++ {
			if err := s.CreateEmulator(); err != nil {
				return err.Error(), fmt.Errorf("unexplained:create-emulator")
			}
		}
		c11Fill(s, 0)
		c11Fill(fresh, 0)
		v1, p1 := c11Read(s, c.Addr)
		v2, p2 := c11Read(fresh, c.Addr)
		if p1 != p2 || v1 != v2 {
			return fmt.Sprintf("after 141 CreateEmulator calls read $%06x = $%02x (panic %v), on a fresh System $%02x (panic %v)", c.Addr, v1, p1, v2, p2), fmt.Errorf("unexplained:aged-system-map-differs")
		}
		return "the aged System reads like a fresh one here", nil
	}
	if c.Op == "clone" {
		c11Fill(s, 0)
		clone := new(emulator.System)
		*clone = *s
		if err := clone.CreateEmulator(); err != nil {
			return err.Error(), fmt.Errorf("unexplained:create-emulator")
		}
		for i := range clone.WRAM {
			clone.WRAM[i] = ^s.WRAM[i]
		}
		for i := range clone.ROM {
			clone.ROM[i] = ^s.ROM[i]
		}
		for i := range clone.SRAM {
			clone.SRAM[i] = ^s.SRAM[i]
		}
		for _, a := range []uint32{c.Addr, 0x7E0000, 0x008000, 0x700000} {
			mc2, mo2 := c11Mapper(a)
			if mc2 == refmap.Unmapped {
				continue
			}
			v, p := c11Read(clone, a)
			if p {
				continue
			}
			if own := c11Array(clone, mc2)[mo2]; v != own {
				return fmt.Sprintf("a System made by copying another and calling CreateEmulator reads $%06x = $%02x, its own %v[$%x] holds $%02x", a, v, mc2, mo2, own), fmt.Errorf("unexplained:copied-system-reads-elsewhere")
			}
			if c11Write(clone, a, v^0x5A) || c11Array(clone, mc2)[mo2] != v^0x5A {
				return fmt.Sprintf("a System made by copying another and calling CreateEmulator: write $%06x did not change its own %v[$%x]", a, mc2, mo2), fmt.Errorf("unexplained:copied-system-writes-elsewhere")
			}
		}
		return "the copied System's bus serves its own arrays", nil
	}
	if c.Op == "history" {
		for _, k := range []uint{0, 3} {
			c11Fill(s, k)
			if w := c11HistoryOne(s, c.Addr, c.End, nil, nil); w != "" {
				return w, fmt.Errorf("unexplained:bus-access-depends-on-history")
			}
		}
		return "the access after a 24-bit read goes where it goes on its own", nil
	}
	if c.Op == "read24" {
		if what := c11Read24Check(s, c.Addr); what != "" {
			return what, fmt.Errorf("unexplained:read24")
		}
		return "the 24-bit read equals the three single reads", nil
	}
	if c.Op == "dump" {
		// EaDump(addr, addr+40) against single reads
		c11Fill(s, 0)
		const sentinel = 0xE7
		buf := make([]byte, 64)
		for i := range buf {
			buf[i] = sentinel
		}
		st, en := c.Addr, c.End
		if en < st || en-st > 60 {
			en = st + 40
		}
		var n int
		var pn interface{}
		func() {
			defer func() { pn = recover() }()
			n = s.Bus.EaDump(st, en, buf)
		}()
		want := int(en - st + 1)
		if pn != nil || n != want {
			return fmt.Sprintf("EaDump($%06x,$%06x) returned %d (panic %v), want %d", st, en, n, pn, want), fmt.Errorf("unexplained:block-read")
		}
		for i := 0; i < want; i++ {
			v, p := c11Read(s, st+uint32(i))
			want := byte(sentinel)
			if !p {
				want = v
			}
			if buf[i] != want {
				return fmt.Sprintf("EaDump($%06x,$%06x): position %d (address $%06x) holds $%02x, a single read gives $%02x (unattached: %v)", st, en, i, st+uint32(i), buf[i], want, p), fmt.Errorf("unexplained:block-read")
			}
		}
		return "the block read equals the single reads", nil
	}
	if c.Op == "read" {
		var id uint32
		for k := uint(0); k < 4; k++ {
			c11Fill(s, k)
			v, p := c11Read(s, c.Addr)
			if p {
				return "address is not attached in the emulator (outside the property)", nil
			}
			id |= uint32(v) << (8 * k)
		}
		cls, off := refmap.Class(id>>28), id&0x0FFFFFFF
		if cls == refmap.Unmapped && mc != refmap.Unmapped && c11ConsoleWindow(c.Addr, uint32(len(s.SRAM)>>15)) {
			return fmt.Sprintf("read $%06x lies in the console's %v window (mapper: %v[$%x]) but is not backed by that array", c.Addr, mc, mc, mo), fmt.Errorf("unexplained:memory-window-not-backed")
		}
		if cls == refmap.Unmapped || mc == refmap.Unmapped {
			return fmt.Sprintf("emulator: class %v, mapper: class %v — not both memory, outside the property", cls, mc), nil
		}
		if cls != mc || off != mo {
			return fmt.Sprintf("read $%06x returns %v[$%x], mapper designates %v[$%x]", c.Addr, cls, off, mc, mo), fmt.Errorf("unexplained:read-backing")
		}
		return fmt.Sprintf("read $%06x returns %v[$%x] as the mapper says", c.Addr, cls, off), nil
	}
	if mc == refmap.Unmapped {
		return "mapper does not map the address", nil
	}
	c11Fill(s, 0)
	before := [3][]byte{append([]byte(nil), s.ROM[:]...), append([]byte(nil), s.SRAM[:]...), append([]byte(nil), s.WRAM[:]...)}
	arr := c11Array(s, mc)
	val := ^arr[mo]
	if c11Write(s, c.Addr, val) {
		return "address is not attached in the emulator (outside the property)", nil
	}
	before[int(mc)-1][mo] = val
	for i, a := range [3][]byte{s.ROM[:], s.SRAM[:], s.WRAM[:]} {
		if !bytes.Equal(a, before[i]) {
			d := firstDiff(a, before[i])
			return fmt.Sprintf("write $%06x <- $%02x: array %v differs from the prediction at offset $%x (mapper designates %v[$%x])", c.Addr, val, refmap.Class(i+1), d, mc, mo), fmt.Errorf("unexplained:write-target")
		}
	}
	return fmt.Sprintf("write $%06x changed exactly %v[$%x]", c.Addr, mc, mo), nil
}

func runC11(r *report.Run) {
	ids, unatt, err := c11Identify()
	if err != nil {
		r.Violation("unexplained:create-emulator", "CreateEmulator failed: "+err.Error(), nil)
		return
	}
	var both, backed, unattached, disagreements int64
	perClass := map[string]int64{}
	type tgt struct {
		c refmap.Class
		o uint32
	}
	layers := map[tgt][]uint32{}
	sramBanks := uint32(len(emulator.System{}.SRAM) >> 15)
	for a := uint32(0); a < 1<<24; a++ {
		if unatt[a] {
			unattached++
			if mc, mo := c11Mapper(a); mc != refmap.Unmapped && c11ConsoleWindow(a, sramBanks) {
				r.Violation(fmt.Sprintf("unexplained:memory-window-not-backed:%v", mc), fmt.Sprintf("$%06x lies in the console's %v window (mapper: %v[$%x]) but nothing is attached there", a, mc, mc, mo), c11Case{Op: "read", Addr: a})
			}
			continue
		}
		cls, off := refmap.Class(ids[a]>>28), ids[a]&0x0FFFFFFF
		if cls > refmap.WRAM {
			r.Violation("unexplained:read-garbage", fmt.Sprintf("read of $%06x returns bytes that identify no array cell (id $%08x)", a, ids[a]), c11Case{Op: "read", Addr: a})
			continue
		}
		if cls != refmap.Unmapped {
			backed++
		}
		mc, mo := c11Mapper(a)
		if cls == refmap.Unmapped && mc != refmap.Unmapped && c11ConsoleWindow(a, sramBanks) {
			// inside a documented memory window of the console, translated by the mapper, yet not
			// backed by the array the mapper designates (I/O or nothing answers there)
			disagreements++
			r.Violation(fmt.Sprintf("unexplained:memory-window-not-backed:%v", mc), fmt.Sprintf("read $%06x lies in the console's %v window (mapper: %v[$%x]) but is not backed by that array", a, mc, mc, mo), c11Case{Op: "read", Addr: a})
			continue
		}
		if cls == refmap.Unmapped || mc == refmap.Unmapped {
			continue
		}
		both++
		perClass[mc.String()]++
		if cls != mc || off != mo {
			disagreements++
			r.Violation(fmt.Sprintf("unexplained:read-backing:%v-as-%v", mc, cls), fmt.Sprintf("read $%06x returns %v[$%x], mapper designates %v[$%x]", a, cls, off, mc, mo), c11Case{Op: "read", Addr: a})
			continue
		}
		t := tgt{mc, mo}
		layers[t] = append(layers[t], a)
	}
	// ---- block reads (EaDump) across every seam of the map: same bytes as the single reads, holes untouched
	var seams, dumps int64
	if ds, err := c11NewSystem(); err == nil {
		c11Fill(ds, 0)
		kind := func(a uint32) uint32 {
			if unatt[a] {
				return 0xFF
			}
			return ids[a] >> 28
		}
		const sentinel = 0xE7
		buf := make([]byte, 64)
		for b := uint32(1); b < 1<<24; b++ {
			if b&0xF != 0 || kind(b) == kind(b-1) { // routing changes at 16-byte cells only
				continue
			}
			seams++
			// ranges: from 20, 8, 1 bytes before the seam to 20 after it; and blocks lying inside one
			// 16-byte cell on either side of it (unaligned start, start == end, the whole cell)
			type rg struct{ st, en uint32 }
			var ranges []rg
			if b >= 20 && b+20 <= 0xFFFFFF {
				ranges = append(ranges, rg{b - 20, b + 20}, rg{b - 8, b + 20}, rg{b - 1, b + 20},
					rg{b + 5, b + 9}, rg{b + 3, b + 3}, rg{b, b + 15}, rg{b + 1, b + 15}, rg{b - 11, b - 7}, rg{b - 16, b - 2})
			}
			for _, rr := range ranges {
				st, en := rr.st, rr.en
				for i := range buf {
					buf[i] = sentinel
				}
				var n int
				var pn interface{}
				func() {
					defer func() { pn = recover() }()
					n = ds.Bus.EaDump(st, en, buf)
				}()
				dumps++
				bad := ""
				if pn != nil {
					bad = fmt.Sprintf("panicked: %v", pn)
				} else if n != int(en-st+1) {
					bad = fmt.Sprintf("returned %d, want %d", n, en-st+1)
				} else {
					for i := range buf {
						want := byte(sentinel)
						if x := st + uint32(i); i < n && !unatt[x] {
							want = byte(ids[x])
						}
						if buf[i] != want {
							bad = fmt.Sprintf("position %d (address $%06x) holds $%02x, a single read gives $%02x", i, st+uint32(i), buf[i], want)
							break
						}
					}
				}
				if bad != "" {
					r.Violation("unexplained:block-read", fmt.Sprintf("Bus.EaDump($%06x,$%06x) across the seam at $%06x: %s", st, en, b, bad), c11Case{Op: "dump", Addr: st, End: en})
				}
			}
		}
	}
	// ---- 24-bit reads (the CPU's pointer / long-operand fetch) at every address: the three single reads
	var read24 int64
	if ds, err := c11NewSystem(); err == nil {
		for _, k := range []uint{0, 3} {
			c11Fill(ds, k)
			for bank := 0; bank < 256; bank++ {
				for o := uint32(0); o < 0x10000; o++ {
					a := uint32(bank)<<16 | o
					if w := c11Read24One(ds, a); w != "" {
						r.Violation("unexplained:read24", w, c11Case{Op: "read24", Addr: a})
						break
					}
				}
				read24 += 0x10000
			}
		}
	}
	r.Set("reads_24bit", read24)
	// ---- history on the bus: plain read somewhere, a 24-bit read straddling a cell, then plain accesses in the
	// next cell -- they go where they go on their own (table of a plain sweep)
	var histSeq int64
	if ds, err := c11NewSystem(); err == nil {
		for _, k := range []uint{0, 3} {
			c11Fill(ds, k)
			val, pan := make([]byte, 1<<24), make([]bool, 1<<24)
			for a := uint32(0); a < 1<<24; a++ {
				val[a], pan[a] = c11Read(ds, a)
			}
		seq:
			for q := uint32(0xE); q < 1<<24; q += 0x10 {
				for _, prior := range []uint32{0x004212, 0x7E0021, 0x008000, 0x700000} {
					for _, qq := range []uint32{q, q + 1} {
						histSeq++
						if w := c11HistoryOne(ds, prior, qq, val, pan); w != "" {
							r.Violation("unexplained:bus-access-depends-on-history", w, c11Case{Op: "history", Addr: prior, End: qq})
							break seq
						}
					}
				}
			}
		}
	}
	r.Set("access_histories_with_24bit_reads", histSeq)
	r.Set("map_seams", seams)
	r.Set("block_reads_across_seams", dumps)
	// ---- a System obtained by copying another one and initialising the copy (struct copy, then CreateEmulator):
	// its bus serves ITS arrays. Probes: both edges of every seam and of each array, read and written.
	var cloneProbes int64
	if orig, err := c11NewSystem(); err == nil {
		c11Fill(orig, 0)
		clone := new(emulator.System)
		*clone = *orig
		if err := clone.CreateEmulator(); err != nil {
			r.Violation("unexplained:create-emulator", "CreateEmulator on a copied System failed: "+err.Error(), nil)
		} else {
			for i := range clone.ROM {
				clone.ROM[i] = ^orig.ROM[i]
			}
			for i := range clone.SRAM {
				clone.SRAM[i] = ^orig.SRAM[i]
			}
			for i := range clone.WRAM {
				clone.WRAM[i] = ^orig.WRAM[i]
			}
			snap := [3][]byte{append([]byte(nil), orig.ROM[:]...), append([]byte(nil), orig.SRAM[:]...), append([]byte(nil), orig.WRAM[:]...)}
			for b := uint32(0); b < 1<<24; b++ {
				if b&0xF != 0 || (b != 0 && !unatt[b] == !unatt[b-1] && (unatt[b] || ids[b]>>28 == ids[b-1]>>28)) {
					continue
				}
				for _, a := range []uint32{b, b + 15, b - 1} {
					if a >= 1<<24 || unatt[a] {
						continue
					}
					cls, off := refmap.Class(ids[a]>>28), ids[a]&0x0FFFFFFF
					if cls == refmap.Unmapped || cls > refmap.WRAM {
						continue
					}
					cloneProbes++
					arr, oarr := c11Array(clone, cls), c11Array(orig, cls)
					v, p := c11Read(clone, a)
					if p || v != arr[off] {
						r.Violation("unexplained:copied-system-reads-elsewhere", fmt.Sprintf("a System made by copying another and calling CreateEmulator: read $%06x = $%02x (panic %v), its own %v[$%x] holds $%02x, the original's $%02x", a, v, p, cls, off, arr[off], oarr[off]), c11Case{Op: "clone", Addr: a})
						break
					}
					if c11Write(clone, a, v^0x5A) || arr[off] != v^0x5A {
						r.Violation("unexplained:copied-system-writes-elsewhere", fmt.Sprintf("a System made by copying another and calling CreateEmulator: write $%06x did not change its own %v[$%x]", a, cls, off), c11Case{Op: "clone", Addr: a})
						break
					}
					arr[off] = v
				}
			}
			for i, arr := range [3][]byte{orig.ROM[:], orig.SRAM[:], orig.WRAM[:]} {
				if !bytes.Equal(arr, snap[i]) {
					r.Violation("unexplained:copied-system-writes-elsewhere", fmt.Sprintf("writes through the copied System's bus changed the ORIGINAL System's %v array at offset $%x", refmap.Class(i+1), firstDiff(arr, snap[i])), c11Case{Op: "clone", Addr: 0})
				}
			}
		}
	}
	r.Set("copied_system_probes", cloneProbes)
	// ---- a System that has been through many initialisations (CreateEmulator 140 times on one object: more
	// than 2^16 Attach calls on its bus): the map is still the map
	var agedProbes int64
	if aged, err := c11NewSystem(); err == nil {
		for i := 0; i < 140 && err == nil; i++ {
			err = aged.CreateEmulator()
		}
		if err != nil {
			r.Violation("unexplained:create-emulator", "repeated CreateEmulator failed: "+err.Error(), nil)
		} else {
			c11Fill(aged, 0)
			for b := uint32(0); b < 1<<24; b++ {
				if b&0xF != 0 || (b != 0 && !unatt[b] == !unatt[b-1] && (unatt[b] || ids[b]>>28 == ids[b-1]>>28)) {
					continue
				}
				for _, a := range []uint32{b, b + 15, b - 1} {
					if a >= 1<<24 {
						continue
					}
					agedProbes++
					v, p := c11Read(aged, a)
					if unatt[a] {
						if !p {
							r.Violation("unexplained:aged-system-map-differs", fmt.Sprintf("after 141 CreateEmulator calls on one System, $%06x (unattached on a fresh System) reads $%02x", a, v), c11Case{Op: "aged", Addr: a})
							break
						}
						continue
					}
					if p || uint32(v) != ids[a]&0xFF {
						r.Violation("unexplained:aged-system-map-differs", fmt.Sprintf("after 141 CreateEmulator calls on one System, read $%06x = $%02x (panic %v); a fresh System reads $%02x there", a, v, p, ids[a]&0xFF), c11Case{Op: "aged", Addr: a})
						break
					}
				}
			}
		}
	}
	r.Set("aged_system_probes", agedProbes)
	// ---- writes, by mirror layer
	s, err := c11NewSystem()
	if err != nil {
		r.Violation("unexplained:create-emulator", err.Error(), nil)
		return
	}
	c11Fill(s, 0)
	model := [3][]byte{append([]byte(nil), s.ROM[:]...), append([]byte(nil), s.SRAM[:]...), append([]byte(nil), s.WRAM[:]...)}
	maxLayer := 0
	for _, l := range layers {
		if len(l) > maxLayer {
			maxLayer = len(l)
		}
	}
	var writes int64
	layerAddrs := make([][]uint32, maxLayer)
	for _, l := range layers {
		for j, a := range l {
			layerAddrs[j] = append(layerAddrs[j], a)
		}
	}
	for j := range layerAddrs {
		sort.Slice(layerAddrs[j], func(x, y int) bool { return layerAddrs[j][x] < layerAddrs[j][y] })
	}
	for j, addrs := range layerAddrs {
		for run := 0; run < 4; run++ {
			n := len(addrs)
			for i := 0; i < n; i++ {
				a := addrs[i]
				if run&1 == 1 {
					a = addrs[n-1-i]
				}
				v := byte(a) ^ byte(a>>8)*3 ^ byte(a>>16)*7 ^ byte(j)
				if run >= 2 {
					v = ^v
				}
				mc, mo := c11Mapper(a)
				if c11Write(s, a, v) {
					r.Violation("unexplained:write-panics", fmt.Sprintf("write to $%06x (readable, %v[$%x]) panicked", a, mc, mo), c11Case{Op: "write", Addr: a})
					continue
				}
				model[int(mc)-1][mo] = v
				writes++
			}
			for i, arr := range [3][]byte{s.ROM[:], s.SRAM[:], s.WRAM[:]} {
				if !bytes.Equal(arr, model[i]) {
					d := firstDiff(arr, model[i])
					// find a culprit address of this layer for the replay
					var culprit uint32
					for _, a := range addrs {
						mc, mo := c11Mapper(a)
						if int(mc)-1 == i && mo == uint32(d) {
							culprit = a
						}
					}
					r.Violation(fmt.Sprintf("unexplained:write-target:%v", refmap.Class(i+1)), fmt.Sprintf("mirror layer %d run %d: array %v offset $%x holds $%02x, predicted $%02x (culprit candidate $%06x)", j, run, refmap.Class(i+1), d, arr[d], model[i][d], culprit), c11Case{Op: "write", Addr: culprit})
					copy(model[i], arr) // resynchronise so that one defect is reported once per layer
				}
			}
		}
	}
	r.Set("evaluations", int64(4*(1<<24))+writes)
	r.Set("distinct_nontrivial", both)
	r.Set("addresses_backed_by_an_array", backed)
	r.Set("addresses_unattached", unattached)
	r.Set("addresses_both_consider_memory", both)
	r.Set("by_class", perClass)
	r.Set("mirror_layers", int64(maxLayer))
	r.Set("writes_executed", writes)
	r.Set("rule", "a System initialised 141 times must still have the map of a fresh one (both edges of every seam); a System obtained by struct copy + CreateEmulator must serve its own arrays (both edges of every seam read and written, the original untouched); access histories: a plain read at one of four places, a 24-bit read straddling a 16-byte cell (every such address), then a read and a write in the next cell must behave as on their own; 24-bit reads: Bus.EaRead24_wrap at all 2^24 addresses under two fills must equal the three single reads (wrapping inside the bank); block reads: Bus.EaDump from 20, 8 and 1 bytes before every seam of the map (attached/unattached or another array) to 20 bytes after it, and over blocks inside one 16-byte cell on either side of the seam, must equal the single reads and leave holes untouched; reads: all 2^24 bus addresses x 4 passes (byte k of a unique location id planted in every ROM/SRAM/WRAM array cell) identify exactly which cell backs each address; writes: addresses grouped into mirror layers (j-th alias of each cell), each layer written ascending/descending with two complementary value patterns and all three arrays compared in full with the prediction after each run; non-trivial = address that both the emulator backs with an array cell and the LoROM mapper translates")
	r.Set("exhaustive", true)
	r.Sample(c11Case{Op: "read", Addr: 0x808000})
	r.Sample(c11Case{Op: "write", Addr: 0x001FFF})
	r.Sample(c11Case{Op: "write", Addr: 0xF07FFF})
	r.Assume("array contents are arbitrary but the bus never inspects data, so identification with planted ids generalises over contents")
}
