package checks

import (
	"sync"
	"sync/atomic"

	"verif/internal/par"
	"verif/internal/ref65816"
)

// cpuSampled holds a few cases actually enumerated by the last cpuEnumerate calls (for evidence samples).
var cpuSampled []string

type cpuSweep struct {
	name string
	base cpuCase
	dims []cpuDim
}

type cpuSweepOpts struct {
	thorough bool
	withE    bool // add E in {0,1} to every sweep (C02, C08, C12, C14)
	withInt  bool // add pending-interrupt values to the flag sweep (C02, C12)
	seed     int64
	alpha    *cpuAlpha // overrides the tier's alphabets (C08 high-address product)
}

var cpuData2 = []uint16{0x8001, 0x7FFE}

func regPresets() cpuDim {
	type rs struct{ c, x, y, s, d uint16 }
	p := []rs{{0x1234, 0x0010, 0x0020, 0x01FF, 0x0000}, {0xFFFF, 0xFFFF, 0xFFFF, 0xFFFF, 0xFFFF}, {0x0000, 0x0000, 0x0000, 0x0100, 0x00FF}, {0x80FF, 0x00FF, 0x0100, 0x0000, 0x0100},
		// stack pointers from which a multi-byte push or pull wraps part-way (bank 0 edge, page 1 edge)
		{0x00FF, 0x0001, 0x00FE, 0x0002, 0x0001}, {0x7F80, 0x0080, 0x007F, 0x0101, 0xFF00}}
	return cpuDim{"regs", len(p), func(c *cpuCase, i int) { c.S.C, c.S.X, c.S.Y, c.S.S, c.S.D = p[i].c, p[i].x, p[i].y, p[i].s, p[i].d }}
}

// ten default points for the frame sweep
func framePoints() cpuDim {
	type pt struct {
		c, x, y, s, d uint16
		dbr, p        byte
		loc           [2]uint32
	}
	p := []pt{
		{0x1234, 0x0010, 0x0020, 0x01FF, 0x0000, 0x12, 0x00, [2]uint32{0, 0x8000}},
		{0x1234, 0x0010, 0x0020, 0x01FF, 0x0000, 0x12, 0x30, [2]uint32{0, 0x8000}},
		{0x1234, 0x0010, 0x0020, 0x01FF, 0x0000, 0x12, 0x10, [2]uint32{0, 0x8000}},
		{0x1234, 0x0010, 0x0020, 0x01FF, 0x0000, 0x12, 0x20, [2]uint32{0, 0x8000}},
		{0xFFFF, 0xFFFF, 0xFFFF, 0x0000, 0xFFFF, 0xFF, 0xCF, [2]uint32{0xFF, 0xFFFD}},
		{0x0000, 0x0000, 0x0000, 0xFFFF, 0x0001, 0x00, 0xFF, [2]uint32{0x7E, 0x0000}},
		{0x8000, 0x00FF, 0x0001, 0x0100, 0x00FF, 0x7E, 0x01, [2]uint32{0x01, 0xFFFE}},
		{0x00FF, 0x0100, 0x00FF, 0x00FF, 0x0100, 0x01, 0x39, [2]uint32{0x00, 0xFFFF}},
		{0x0999, 0x0001, 0x8000, 0x01FF, 0xFF00, 0x7E, 0x08, [2]uint32{0x00, 0x8000}},
		{0x7FFF, 0x8000, 0xFFFF, 0xFFFE, 0x0000, 0xFF, 0xC2, [2]uint32{0x01, 0xFFFD}},
	}
	return cpuDim{"point", len(p), func(c *cpuCase, i int) {
		c.S.C, c.S.X, c.S.Y, c.S.S, c.S.D, c.S.DBR, c.S.P = p[i].c, p[i].x, p[i].y, p[i].s, p[i].d, p[i].dbr, p[i].p
		c.S.K, c.S.PC = byte(p[i].loc[0]), uint16(p[i].loc[1])
	}}
}

func cpuSweepsFor(op byte, al cpuAlpha, o cpuSweepOpts) []cpuSweep {
	e := ref65816.Table[op]
	base := cpuDefaultCase(op)
	nop := maxOperandBytes(op)
	var out []cpuSweep
	extra := func(d []cpuDim) []cpuDim {
		if o.withE {
			d = append(d, dE())
		}
		return d
	}
	opnds := func(n int) []cpuDim {
		var d []cpuDim
		for k := 0; k < n; k++ {
			d = append(d, dOpnd(k, al.bytes))
		}
		return d
	}
	// 1. fetch sweep: where the instruction sits x every operand byte combination
	{
		d := []cpuDim{dLoc(al.locs)}
		d = append(d, opnds(nop)...)
		d = append(d, dMX(), dSeed(al.seeds))
		out = append(out, cpuSweep{"fetch", base, extra(d)})
	}
	// 2. addressing sweep
	{
		var d []cpuDim
		tail := []cpuDim{dMX(), dData(cpuData2), dSeed(al.seeds)}
		switch e.Mode {
		case ref65816.Dp:
			d = append(opnds(1), dD(al.dreg))
		case ref65816.Dpx:
			d = append(opnds(1), dD(al.dreg), dX(al.idx))
		case ref65816.Dpy:
			d = append(opnds(1), dD(al.dreg), dY(al.idx))
		case ref65816.Idp:
			d = append(opnds(1), dD(al.dreg), dPtr16(al.ptrLo), dDBR(al.dbr))
		case ref65816.Idx:
			d = append(opnds(1), dD(al.dreg), dX(al.idx), dPtr16(al.ptrLo), dDBR(al.dbr))
		case ref65816.Idy:
			d = append(opnds(1), dD(al.dreg), dPtr16(al.ptrLo), dDBR(al.dbr), dY(al.idx))
		case ref65816.Ildp:
			d = append(opnds(1), dD(al.dreg), dPtr24(al.ptrLo, al.ptrBk))
		case ref65816.Ildy:
			d = append(opnds(1), dD(al.dreg), dPtr24(al.ptrLo, al.ptrBk), dY(al.idx))
		case ref65816.Sr:
			d = append(opnds(1), dS(al.sp))
		case ref65816.Isy:
			d = append(opnds(1), dS(al.sp), dPtr16(al.ptrLo), dDBR(al.dbr), dY(al.idx))
		case ref65816.Abs:
			d = append(opnds(2), dDBR(al.dbr))
		case ref65816.Abx:
			d = append(opnds(2), dDBR(al.dbr), dX(al.idx))
		case ref65816.Aby:
			d = append(opnds(2), dDBR(al.dbr), dY(al.idx))
		case ref65816.Lng:
			d = opnds(3)
		case ref65816.Lnx:
			d = append(opnds(3), dX(al.idx))
		case ref65816.Iab:
			d = append(opnds(2), dPtr16(al.ptrLo))
		case ref65816.Iax:
			d = append(opnds(2), dX(al.idx), dPtr16(al.ptrLo))
		case ref65816.Ial:
			d = append(opnds(2), dPtr24(al.ptrLo, al.ptrBk))
		case ref65816.Blk:
			d = append(opnds(2), dX(al.idx), dY(al.idx), dA([]uint16{0, 1, 2, 0xFFFF, 0x0100}), dStale())
		}
		if d != nil {
			d = append([]cpuDim{dLoc(al.opLocs)}, d...)
			d = append(d, tail...)
			out = append(out, cpuSweep{"addressing", base, extra(d)})
		}
	}
	// 3. operation sweep
	{
		reads, ok := opReads[e.Mn]
		if !ok {
			reads = ""
		}
		var d []cpuDim
		for _, r := range reads {
			switch r {
			case 'A':
				d = append(d, dA(al.acc))
			case 'X':
				d = append(d, dX(al.idx))
			case 'Y':
				d = append(d, dY(al.idx))
			case 'S':
				d = append(d, dS(al.sp))
			case 'd':
				d = append(d, dData(al.acc))
			case 'D':
				d = append(d, dD(al.dreg))
			case 'B':
				d = append(d, dDBR(al.dbr))
			}
		}
		d = append(d, dBit("carry", ref65816.FC), dBit("dec", ref65816.FD), dMX(), dStale())
		out = append(out, cpuSweep{"operation", base, extra(d)})
	}
	// 4. flag sweep
	{
		d := []cpuDim{dP(), regPresets(), dStale()}
		if e.Mode == ref65816.Rel || e.Mn == "REP" || e.Mn == "SEP" {
			d = append(d, dOpnd(0, []byte{0x00, 0x10, 0x20, 0x30, 0x7F, 0x80, 0xCF, 0xFE, 0xFF}))
		}
		if e.Mn == "PLP" || e.Mn == "RTI" {
			d = append(d, dData([]uint16{0x0000, 0x00FF, 0x0030, 0x00CF, 0x0010, 0x0020}))
		}
		if o.withInt {
			d = append(d, dInt())
		}
		out = append(out, cpuSweep{"flags", base, extra(d)})
	}
	// 5. frame sweep: one (thorough: two) deviations from ten default points
	{
		comps := []cpuDim{dA(al.acc), dX(al.idx), dY(al.idx), dS(al.sp), dD(al.dreg), dDBR(al.dbr), dLoc(al.locs), dP(),
			dOpnd(0, al.bytes), dOpnd(1, al.bytes), dOpnd(2, al.bytes), dStale(), dSeed(al.seeds)}
		for i, ci := range comps {
			out = append(out, cpuSweep{"frame1", base, extra([]cpuDim{framePoints(), ci})})
			if o.thorough {
				for j := i + 1; j < len(comps); j++ {
					if ci.name == "P" || comps[j].name == "P" {
						// P x component pairs: use the 16 m/x/d/c combinations instead of all 256
						pj := comps[j]
						if ci.name != "P" {
							pj = ci
						}
						out = append(out, cpuSweep{"frame2", base, extra([]cpuDim{framePoints(), dMX(), dBit("carry", 1), dBit("dec", 8), pj})})
						continue
					}
					out = append(out, cpuSweep{"frame2", base, extra([]cpuDim{framePoints(), ci, comps[j]})})
				}
			}
		}
	}
	return out
}

// cpuEnumerate runs every sweep of every opcode, sharded over workers; f is called for each
// case with the worker's private machines. Returns per-sweep case counts.
func cpuEnumerate(o cpuSweepOpts, opsFilter func(op byte) bool, f func(x *cpuCtx, c *cpuCase)) map[string]int64 {
	al := cpuAlphabets(o.thorough, o.seed)
	if o.alpha != nil {
		al = *o.alpha
	}
	type job struct {
		op byte
		sw cpuSweep
	}
	var jobs []job
	for op := 0; op < 256; op++ {
		if opsFilter != nil && !opsFilter(byte(op)) {
			continue
		}
		for _, sw := range cpuSweepsFor(byte(op), al, o) {
			jobs = append(jobs, job{byte(op), sw})
		}
	}
	ctxs := make([]*cpuCtx, par.Workers())
	counts := map[string]*int64{}
	var mu sync.Mutex
	par.For(len(jobs), func(w, i int) {
		if ctxs[w] == nil {
			ctxs[w] = newCPUCtx()
		}
		x := ctxs[w]
		j := jobs[i]
		base := j.sw.base
		base.Sweep = j.sw.name
		first := true
		n := product(j.sw.dims, base, func(c *cpuCase) {
			if first && i%61 == 7 {
				mu.Lock()
				if len(cpuSampled) < 64 {
					cpuSampled = append(cpuSampled, c.Sweep+": "+c.String())
				}
				mu.Unlock()
			}
			first = false
			f(x, c)
		})
		mu.Lock()
		p := counts[j.sw.name]
		if p == nil {
			p = new(int64)
			counts[j.sw.name] = p
		}
		mu.Unlock()
		atomic.AddInt64(p, n)
	})
	out := map[string]int64{}
	for k, v := range counts {
		out[k] = *v
	}
	return out
}
