package checks

import (
	"fmt"

	"verif/internal/cpuh"
	"verif/internal/ref65816"
)

// cpuCase is one single-step scenario: an architectural start state, how the stale
// register copies are filled, and the sparse memory image (instruction bytes at K:PC,
// pointer and data bytes planted where the reference model fetches them).
type cpuCase struct {
	Op    byte           `json:"op"`
	S     ref65816.State `json:"state"`
	Stale int            `json:"stale"` // 0 consistent, 1 all-ones, 2 $A5 pattern
	Opnd  [3]byte        `json:"operand"`
	Ptr   [3]int         `json:"ptr"`  // planted pointer bytes, -1 = base image
	Data  [2]int         `json:"data"` // planted data bytes, -1 = base image
	Seed  uint32         `json:"seed"`
	Int   byte           `json:"interrupt"`
	Sweep string         `json:"sweep,omitempty"`
}

func (c *cpuCase) String() string {
	e := ref65816.Table[c.Op]
	return fmt.Sprintf("op=%02x(%s) %02x:%04x opnd=%02x,%02x,%02x C=%04x X=%04x Y=%04x S=%04x D=%04x DBR=%02x P=%02x E=%v stale=%d ptr=%v data=%v seed=%x int=%d",
		c.Op, e.Mn, c.S.K, c.S.PC, c.Opnd[0], c.Opnd[1], c.Opnd[2], c.S.C, c.S.X, c.S.Y, c.S.S, c.S.D, c.S.DBR, c.S.P, c.S.E, c.Stale, c.Ptr, c.Data, c.Seed, c.Int)
}

// normalise makes the architectural state valid: x=1 clears the index high bytes,
// E=1 forces m=x=1 and the page-1 stack.
func (c *cpuCase) normalise() {
	if c.S.E {
		c.S.P |= ref65816.FM | ref65816.FX
		// page-1 stack; $10xx is kept as it is: both interpreters reach it after any push/pull in
		// emulation mode (their shared stack-page quirk), so it is a reachable raw state
		if c.S.S>>8 != 0x10 {
			c.S.S = 0x0100 | c.S.S&0xFF
		}
	}
	if c.S.P&ref65816.FX != 0 {
		c.S.X &= 0xFF
		c.S.Y &= 0xFF
	}
}

// mkRaw builds an implementation start state from an architectural one plus a valuation
// of the stale copies.
// cpuDirtIRQ: set by the checks that have no reference model in the loop (C02, C08, C12): their dirty start
// states carry an OnWDM observer that calls TriggerIRQ during the Step.
var cpuDirtIRQ bool

// cpuChargeMem: set by C02: in the start states with the $A5 stale pattern the memory objects charge the
// interpreter one cycle per access (slow memory adding wait states to the exported per-step counter); both
// interpreters must account for them alike.
var cpuChargeMem bool

func mkRaw(s ref65816.State, stale int, intr byte) cpuh.Raw {
	r := cpuh.Raw{PC: s.PC, SP: s.S, RD: s.D, RDBR: s.DBR, RK: s.K, P: s.P, Interrupt: intr, Stopped: s.Stopped}
	if s.E {
		r.E = 1
	}
	if stale != 0 {
		r.Dirt = 1 // the stale-copy valuations also start from junk in the non-architectural fields
		if cpuDirtIRQ {
			r.Dirt = 2 // ... and with an OnWDM observer that raises an IRQ while the Step is running
		}
		r.AllCycles = ^uint64(0) - 2 // ... and from a running cycle total that is about to wrap
		r.Charge = cpuChargeMem && stale == 2
	}
	st16 := []uint16{0, 0xFFFF, 0xA5A5}[stale]
	st8 := byte(st16)
	if s.P&ref65816.FM != 0 {
		r.RAl, r.RAh = byte(s.C), byte(s.C>>8)
		if stale == 0 {
			r.RA = s.C
		} else {
			r.RA = st16
		}
	} else {
		r.RA = s.C
		if stale == 0 {
			r.RAl, r.RAh = byte(s.C), byte(s.C>>8)
		} else {
			r.RAl, r.RAh = st8, st8
		}
	}
	if s.P&ref65816.FX != 0 {
		// with x=1 the 16-bit copies always have a zero high byte in reachable states (the switch
		// to 8-bit index registers clears them); a stale non-zero high byte is not a reachable
		// raw state and is left to the program search (LDX #imm16; SEP; REP).
		r.RXl, r.RYl = byte(s.X), byte(s.Y)
		r.RX, r.RY = s.X&0xFF, s.Y&0xFF
	} else {
		r.RX, r.RY = s.X, s.Y
		if stale == 0 {
			r.RXl, r.RYl = byte(s.X), byte(s.Y)
		} else {
			r.RXl, r.RYl = st8, st8
		}
	}
	return r
}

// alpha is the abstraction function implementation state -> architectural state.
func alpha(r cpuh.Raw) ref65816.State {
	s := ref65816.State{PC: r.PC, S: r.SP, D: r.RD, DBR: r.RDBR, K: r.RK, P: r.P, E: r.E == 1, Stopped: r.Stopped}
	if r.P&ref65816.FM != 0 {
		s.C = uint16(r.RAh)<<8 | uint16(r.RAl)
	} else {
		s.C = r.RA
	}
	if r.P&ref65816.FX != 0 {
		s.X, s.Y = uint16(r.RXl), uint16(r.RYl)
	} else {
		s.X, s.Y = r.RX, r.RY
	}
	return s
}

// cpuCtx is the per-worker set of machines and scratch memories.
type cpuCtx struct {
	pri  *cpuh.Pri
	alt  *cpuh.Alt
	ms   [2]cpuh.Machine
	ref  cpuh.Mem
	img  cpuh.Mem
	nImg int
}

func newCPUCtx() *cpuCtx {
	c := &cpuCtx{pri: cpuh.NewPri(), alt: cpuh.NewAlt()}
	c.ms = [2]cpuh.Machine{c.pri, c.alt}
	return c
}

func nPtrBytes(m ref65816.Mode) int {
	switch m {
	case ref65816.Idp, ref65816.Idx, ref65816.Idy, ref65816.Isy, ref65816.Iab, ref65816.Iax:
		return 2
	case ref65816.Ildp, ref65816.Ildy, ref65816.Ial:
		return 3
	}
	return 0
}

// buildImage fills ctx.img for the case: instruction bytes, then pointer and data bytes at
// the addresses the reference model reads them from.
func (x *cpuCtx) buildImage(c *cpuCase) {
	img := &x.img
	img.Seed = c.Seed
	img.Ov = img.Ov[:0]
	k := uint32(c.S.K) << 16
	img.Plant(k|uint32(c.S.PC), c.Op)
	for i := 0; i < 3; i++ {
		img.Plant(k|uint32(c.S.PC+uint16(i)+1), c.Opnd[i])
	}
	e := ref65816.Table[c.Op]
	nptr := nPtrBytes(e.Mode)
	ilen := ref65816.Length(c.Op, c.S.P&ref65816.FM != 0, c.S.P&ref65816.FX != 0)
	isInstr := func(a uint32) bool {
		for i := 0; i < ilen; i++ {
			if a == k|uint32(c.S.PC+uint16(i)) {
				return true
			}
		}
		return false
	}
	native := c.S
	native.E = false
	if nptr > 0 && c.Ptr[0] != -1 {
		x.ref.ResetFrom(img)
		st := native
		ref65816.Step(&st, &x.ref)
		n := 0
		for _, ra := range x.ref.Reads {
			if isInstr(ra) {
				continue
			}
			if n < nptr {
				img.Plant(ra, byte(c.Ptr[n]))
				n++
			}
		}
	}
	if c.Data[0] != -1 {
		x.ref.ResetFrom(img)
		st := native
		ref65816.Step(&st, &x.ref)
		n := 0
		for _, ra := range x.ref.Reads {
			if isInstr(ra) {
				continue
			}
			if n >= nptr && n < nptr+2 {
				img.Plant(ra, byte(c.Data[n-nptr]))
			}
			n++
		}
	}
	x.nImg = len(img.Ov)
}

type refResult struct {
	want  ref65816.State
	care  ref65816.Care
	reads int
}

// runRef executes the reference on a copy of the image; the write log stays in x.ref.Writes.
func (x *cpuCtx) runRef(c *cpuCase, q ref65816.Quirks) refResult {
	x.ref.ResetFrom(&x.img)
	want := c.S
	care := ref65816.StepQ(&want, &x.ref, q)
	return refResult{want, care, len(x.ref.Reads)}
}

type implResult struct {
	raw     cpuh.Raw
	cycles  int
	stopped bool
	panic   interface{}
}

// runImpl executes one Step of machine i from the case's start state on a copy of the image.
func (x *cpuCtx) runImpl(i int, c *cpuCase) implResult {
	m := x.ms[i]
	m.Mem().ResetFrom(&x.img)
	m.Load(mkRaw(c.S, c.Stale, c.Int))
	cy, st, pn := m.Step()
	return implResult{m.Save(), cy, st, pn}
}

// archDiff lists the architectural outputs in which got differs from want, honouring the
// don't-care mask; mem compares last-write-wins write sets.
func archDiff(mn string, got, want ref65816.State, care ref65816.Care, gotW, wantW []cpuh.Cell) []string {
	var d []string
	if care.Loose {
		if mn == "WAI" && (got.PC != want.PC || got.K != want.K) {
			d = append(d, "PC")
		}
		if mn == "STP" && !got.Stopped {
			d = append(d, "Stopped")
		}
		return d
	}
	if got.PC != want.PC {
		d = append(d, "PC")
	}
	if got.K != want.K {
		d = append(d, "K")
	}
	if got.S != want.S {
		d = append(d, "S")
	}
	if got.D != want.D {
		d = append(d, "D")
	}
	if got.DBR != want.DBR {
		d = append(d, "DBR")
	}
	if !care.IgnoreA {
		if got.C != want.C {
			d = append(d, "A")
		}
	} else if want.P&ref65816.FM != 0 && got.C&0xFF00 != want.C&0xFF00 {
		d = append(d, "B")
	}
	if got.X != want.X {
		d = append(d, "X")
	}
	if got.Y != want.Y {
		d = append(d, "Y")
	}
	if (got.P^want.P)&^care.IgnoreP != 0 {
		d = append(d, fmt.Sprintf("P^%02x", (got.P^want.P)&^care.IgnoreP))
	}
	if got.E != want.E {
		d = append(d, "E")
	}
	if got.Stopped != want.Stopped {
		d = append(d, "Stopped")
	}
	if !cpuh.SameWrites(gotW, wantW) {
		d = append(d, "MEM")
	}
	return d
}

// ------------------------------------------------------------------ enumeration

type cpuDim struct {
	name string
	n    int
	set  func(c *cpuCase, i int)
}

// product enumerates the full product of dims over base (mixed-radix counter, fixed order).
func product(dims []cpuDim, base cpuCase, f func(c *cpuCase)) int64 {
	idx := make([]int, len(dims))
	var n int64
	c := new(cpuCase) // one scratch case per product, reused (f must not retain the pointer)
	for {
		*c = base
		for k, d := range dims {
			d.set(c, idx[k])
		}
		c.normalise()
		f(c)
		n++
		k := len(dims) - 1
		for k >= 0 {
			idx[k]++
			if idx[k] < dims[k].n {
				break
			}
			idx[k] = 0
			k--
		}
		if k < 0 {
			return n
		}
	}
}

type cpuAlpha struct {
	locs   [][2]uint32
	bytes  []byte
	acc    []uint16
	idx    []uint16
	sp     []uint16
	dreg   []uint16
	dbr    []byte
	ptrLo  []uint16
	ptrBk  []byte
	seeds  []uint32
	opLocs [][2]uint32 // representative locations for the non-fetch sweeps
}

func cpuAlphabets(thorough bool, seed int64) cpuAlpha {
	a := cpuAlpha{
		locs: [][2]uint32{{0x00, 0x8000}, {0x00, 0xFFFC}, {0x00, 0xFFFD}, {0x00, 0xFFFE}, {0x00, 0xFFFF},
			{0x01, 0xFFFD}, {0x01, 0xFFFE}, {0x01, 0xFFFF}, {0xFF, 0xFFFD}, {0xFF, 0xFFFE}, {0xFF, 0xFFFF}, {0x7E, 0x0000}},
		bytes:  []byte{0x00, 0x01, 0x7F, 0x80, 0xFE, 0xFF},
		acc:    []uint16{0x0000, 0x0001, 0x007F, 0x0080, 0x00FF, 0x0100, 0x7FFF, 0x8000, 0xFFFF, 0x1234, 0x0009, 0x0099, 0x0999, 0x9999, 0x0505},
		idx:    []uint16{0x0000, 0x0001, 0x00FF, 0x0100, 0x8000, 0xFFFF},
		sp:     []uint16{0x01FF, 0x0000, 0x0001, 0x00FF, 0x0100, 0xFFFE, 0xFFFF, 0x10FE},
		dreg:   []uint16{0x0000, 0x0001, 0x00FF, 0x0100, 0xFF00, 0xFFFF},
		dbr:    []byte{0x00, 0x01, 0x7E, 0xFF},
		ptrLo:  []uint16{0x0000, 0x00FF, 0x7FFF, 0x8000, 0xFFFE, 0xFFFF},
		ptrBk:  []byte{0x00, 0x7E, 0xFF},
		seeds:  []uint32{0x9E3779B9, 0x51ED270B},
		opLocs: [][2]uint32{{0x00, 0x8000}, {0x01, 0xFFFE}},
	}
	if thorough {
		a.locs = append(a.locs, [][2]uint32{{0x7E, 0x00FF}, {0x7E, 0x0100}, {0x80, 0x7FFF}, {0xFE, 0xFFFD}, {0xFE, 0xFFFE}, {0xFE, 0xFFFF},
			{0x00, 0x0000}, {0x00, 0x00FE}, {0x00, 0x01FE}, {0x7F, 0xFFFF}, {0x40, 0x1234}, {0x80, 0xFFFE}}...)
		a.bytes = []byte{0x00, 0x01, 0x02, 0x0F, 0x10, 0x7F, 0x80, 0x81, 0xFE, 0xFF}
		a.acc = append(a.acc, 0x0002, 0x000F, 0x0010, 0x00FE, 0x0101, 0x01FF, 0x7F00, 0x7FFE, 0x8001, 0xFF00, 0xFFFE, 0x00A0, 0x0A00, 0x1999, 0x9000, 0x5555)
		a.idx = append(a.idx, 0x0002, 0x007F, 0x0080, 0x00FE, 0x0101, 0x7FFF, 0x8001, 0xFFFE)
		a.dbr = append(a.dbr, 0x7F, 0x80, 0xFE)
		a.seeds = append(a.seeds, uint32(seed)*2654435761+0x1234567)
	}
	return a
}

func dLoc(l [][2]uint32) cpuDim {
	return cpuDim{"loc", len(l), func(c *cpuCase, i int) { c.S.K, c.S.PC = byte(l[i][0]), uint16(l[i][1]) }}
}
func dOpnd(k int, b []byte) cpuDim {
	return cpuDim{fmt.Sprint("opnd", k), len(b), func(c *cpuCase, i int) { c.Opnd[k] = b[i] }}
}
func dA(v []uint16) cpuDim { return cpuDim{"A", len(v), func(c *cpuCase, i int) { c.S.C = v[i] }} }
func dX(v []uint16) cpuDim { return cpuDim{"X", len(v), func(c *cpuCase, i int) { c.S.X = v[i] }} }
func dY(v []uint16) cpuDim { return cpuDim{"Y", len(v), func(c *cpuCase, i int) { c.S.Y = v[i] }} }
func dS(v []uint16) cpuDim { return cpuDim{"S", len(v), func(c *cpuCase, i int) { c.S.S = v[i] }} }
func dD(v []uint16) cpuDim { return cpuDim{"D", len(v), func(c *cpuCase, i int) { c.S.D = v[i] }} }
func dDBR(v []byte) cpuDim {
	return cpuDim{"DBR", len(v), func(c *cpuCase, i int) { c.S.DBR = v[i] }}
}
func dMX() cpuDim {
	return cpuDim{"mx", 4, func(c *cpuCase, i int) { c.S.P = c.S.P&^0x30 | byte(i)<<4 }}
}
func dBit(name string, bit byte) cpuDim {
	return cpuDim{name, 2, func(c *cpuCase, i int) { c.S.P = c.S.P&^bit | byte(i)*bit }}
}
func dNVZI() cpuDim {
	return cpuDim{"nvzi", 2, func(c *cpuCase, i int) { c.S.P = c.S.P&^0xC6 | byte(i)*0xC6 }}
}
func dP() cpuDim { return cpuDim{"P", 256, func(c *cpuCase, i int) { c.S.P = byte(i) }} }
func dE() cpuDim { return cpuDim{"E", 2, func(c *cpuCase, i int) { c.S.E = i == 1 }} }
func dInt() cpuDim {
	return cpuDim{"int", 4, func(c *cpuCase, i int) { c.Int = byte(i) }}
}
func dSeed(v []uint32) cpuDim {
	return cpuDim{"seed", len(v), func(c *cpuCase, i int) { c.Seed = v[i] }}
}
func dStale() cpuDim { return cpuDim{"stale", 3, func(c *cpuCase, i int) { c.Stale = i }} }
func dPtr16(lo []uint16) cpuDim {
	return cpuDim{"ptr16", len(lo), func(c *cpuCase, i int) { c.Ptr = [3]int{int(lo[i] & 0xFF), int(lo[i] >> 8), -1} }}
}
func dPtr24(lo []uint16, bk []byte) cpuDim {
	return cpuDim{"ptr24", len(lo) * len(bk), func(c *cpuCase, i int) {
		l, b := lo[i%len(lo)], bk[i/len(lo)]
		c.Ptr = [3]int{int(l & 0xFF), int(l >> 8), int(b)}
	}}
}
func dData(v []uint16) cpuDim {
	return cpuDim{"data", len(v), func(c *cpuCase, i int) { c.Data = [2]int{int(v[i] & 0xFF), int(v[i] >> 8)} }}
}

func cpuDefaultCase(op byte) cpuCase {
	return cpuCase{Op: op, Opnd: [3]byte{0x10, 0x20, 0x30}, Ptr: [3]int{-1, -1, -1}, Data: [2]int{-1, -1}, Seed: 0x9E3779B9,
		S: ref65816.State{C: 0x1234, X: 0x0010, Y: 0x0020, S: 0x01FF, D: 0x0000, PC: 0x8000, K: 0x00, DBR: 0x12, P: 0x00}}
}

// operand bytes an opcode can have (longest form)
func maxOperandBytes(op byte) int { return ref65816.Length(op, false, false) - 1 }

// what an operation reads besides memory data: A accumulator, X, Y, S stack pointer, d data, D direct, B dbr
var opReads = map[string]string{
	"ADC": "Ad", "SBC": "Ad", "AND": "Ad", "ORA": "Ad", "EOR": "Ad", "CMP": "Ad", "BIT": "Ad", "TSB": "Ad", "TRB": "Ad",
	"LDA": "d", "LDX": "d", "LDY": "d", "STA": "A", "STX": "X", "STY": "Y", "STZ": "",
	"CPX": "Xd", "CPY": "Yd", "INC": "Ad", "DEC": "Ad", "ASL": "Ad", "LSR": "Ad", "ROL": "Ad", "ROR": "Ad",
	"INX": "X", "INY": "Y", "DEX": "X", "DEY": "Y", "TAX": "A", "TAY": "A", "TXA": "XA", "TYA": "YA", "TXY": "X", "TYX": "Y",
	"TSX": "S", "TXS": "XS", "TCS": "A", "TSC": "S", "TCD": "A", "TDC": "D", "XBA": "A",
	"PHA": "AS", "PHX": "XS", "PHY": "YS", "PLA": "Sd", "PLX": "Sd", "PLY": "Sd", "PHP": "S", "PLP": "Sd", "PHB": "SB", "PLB": "Sd",
	"PHK": "S", "PHD": "SD", "PLD": "Sd", "PEA": "S", "PEI": "Sd", "PER": "S", "JSR": "S", "JSL": "S", "RTS": "Sd", "RTL": "Sd", "RTI": "Sd",
	"BRK": "S", "COP": "S", "XCE": "XYS", "REP": "XY", "SEP": "XY", "MVN": "AXY", "MVP": "AXY",
}
