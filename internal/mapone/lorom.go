//go:build one_lorom

// Package mapone links exactly ONE of the four mapper packages (selected by build tag): a program that
// needs one mapper imports one mapper, and what that mapper answers must not depend on its siblings having
// been linked in (package initialisers that register things for each other).
package mapone

import (
	"github.com/alttpo/snes/mapping/lorom"

	"verif/internal/refmap"
)

var (
	Name     = "lorom"
	BusToPak = lorom.BusAddressToPak
	PakToBus = lorom.PakAddressToBus
	Table    = &refmap.LoROM
)
