//go:build one_hirom

// Package mapone links exactly ONE of the four mapper packages (selected by build tag): a program that
// needs one mapper imports one mapper, and what that mapper answers must not depend on its siblings having
// been linked in (package initialisers that register things for each other).
package mapone

import (
	"github.com/alttpo/snes/mapping/hirom"

	"verif/internal/refmap"
)

var (
	Name     = "hirom"
	BusToPak = hirom.BusAddressToPak
	PakToBus = hirom.PakAddressToBus
	Table    = &refmap.HiROM
)
