//go:build !one_lorom && !one_hirom && !one_exhirom && !one_sa1rom

package mapone

import "verif/internal/refmap"

// built without a selection tag: nothing is linked (cmd/verifone then only says so)
var (
	Name     = ""
	BusToPak func(uint32) (uint32, error)
	PakToBus func(uint32) (uint32, error)
	Table    *refmap.Table
)
