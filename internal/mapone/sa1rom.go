//go:build one_sa1rom

// Package mapone links exactly ONE of the four mapper packages (selected by build tag): a program that
// needs one mapper imports one mapper, and what that mapper answers must not depend on its siblings having
// been linked in (package initialisers that register things for each other).
package mapone

import (
	"github.com/alttpo/snes/mapping/sa1rom"

	"verif/internal/refmap"
)

var (
	Name     = "sa1rom"
	BusToPak = sa1rom.BusAddressToPak
	PakToBus = sa1rom.PakAddressToBus
	Table    = &refmap.SA1
)
