// Package par shards a static index range over worker goroutines. Work items
// are handed out in order; results must be merged by the caller in key order.
package par

import (
	"runtime"
	"sync"
	"sync/atomic"
)

func Workers() int {
	n := runtime.NumCPU()
	if n > 16 {
		n = 16
	}
	if n < 1 {
		n = 1
	}
	return n
}

// For runs f(i) for i in [0,n) on Workers() goroutines. worker is the worker index.
func For(n int, f func(worker, i int)) {
	var next int64 = -1
	var wg sync.WaitGroup
	w := Workers()
	if w > n {
		w = n
	}
	for k := 0; k < w; k++ {
		wg.Add(1)
		go func(k int) {
			defer wg.Done()
			for {
				i := int(atomic.AddInt64(&next, 1))
				if i >= n {
					return
				}
				f(k, i)
			}
		}(k)
	}
	wg.Wait()
}
