#!/bin/bash
# Runs the repository's own test suite (guard off: the harness adds no build tag to /repo)
# and compares the set of passing tests with the 402 stable passes of /root/.vp/BASELINE.json.
# usage: baseline.sh [repo-dir]     exit 0 iff every baseline test passes
REPO=${1:-/repo}
export GOFLAGS=-mod=mod GOPROXY=off GOSUMDB=off GOTOOLCHAIN=local
export GOCACHE=${GOCACHE:-/verif/.gocache}
OUT=$(mktemp)
(cd "$REPO" && go test -mod=mod -json -vet=off -count=1 -timeout 25m ./... ) > "$OUT" 2>/dev/null
python3 - "$OUT" <<'PY'
import json,sys
base=set(json.load(open('/root/.vp/BASELINE.json'))['stable_pass'])
passed=set()
for l in open(sys.argv[1]):
    try: e=json.loads(l)
    except Exception: continue
    if e.get('Action')=='pass' and e.get('Test'):
        passed.add(e['Package']+'::'+e['Test'])
missing=sorted(base-passed)
print("baseline tests: %d, passing now: %d, baseline tests not passing: %d, newly passing: %d"%(len(base),len(passed&base),len(missing),len(passed-base)))
for m in missing[:40]: print("  NOT PASSING:",m)
sys.exit(1 if missing else 0)
PY
rc=$?
rm -f "$OUT"
exit $rc
