#!/usr/bin/env python3
"""Generates /verif/MANIFEST.json from the table below (single source of truth)."""
import json, os
ROOT = os.path.dirname(os.path.dirname(os.path.abspath(__file__)))
ALL = ["C%02d" % i for i in range(1, 20)]
CHECKS = {
 "C06": dict(cat="model_checking", ref="§3.6, §4 C06",
   technique="exhaustive enumeration of emitter call histories (all sequences to depth 4/5 over a 25-symbol alphabet x 10 constructor variants) on the real Emitter against a reference model, plus a branch-distance sweep [-300,300]; Finalize outcome, patched bytes and error legitimacy compared; oracle closed under map iteration order",
   text="Every call of every history runs on a fresh real Emitter and on the reference model (outcome, Bytes, Len, PC, Flags, GetLabel compared after each call); Finalize is then run twice and compared with the model's resolution: success iff all references resolvable and in range, exact operand bytes, nothing but operand bytes changed, legitimate error otherwise; duplicate labels must be refused without effect. The distance sweep covers every distance around both range ends for all eight label-taking methods, forward/backward, 1-3 references, with extra unresolved/out-of-range references, under every base.",
   note="Depth/alphabet bounded. Go map order in Finalize is not controlled: the oracle accepts exactly the union of outcomes over all orders."),
 "C15": dict(cat="model_checking", ref="§4 C15",
   technique="exhaustive enumeration of emitter call histories with listing generation on (depth 4/5, 5 base variants) plus a data-length sweep; both listings of the real Emitter parsed and compared with Bytes() and the reference model's item list, before and after Finalize",
   text="For every history the hex listing's byte tokens must concatenate to exactly Bytes() and the text listing is walked item by item against the model (base directive first, labels/comments where issued, instruction lines with the true address and bytes, data blocks covered contiguously once); listings must not fail or alter the program. EmitBytes lengths 0..70 (300) are swept alone, next to instructions and in exactly-sized buffers.",
   note="16-per-line chunking and cosmetic column layout are not pinned."),
 "C16": dict(cat="model_checking", ref="§4 C16",
   technique="exhaustive enumeration of (history, split point, Append capacity edge) on real Emitters: head into A, Clone, tail into the clone, Append, differential comparison with a direct emitter and with A's own snapshot",
   text="For every call sequence and every split point the Clone/Append emitter must equal the direct emitter on Bytes, Len, PC, Flags, labels, both listings, Finalize outcome and finalized bytes; A must equal its snapshot until Append; an Append that is one byte short must be refused leaving A unchanged, exact and roomy fits must succeed.",
   note="Quick: depth 3 on all 10 variants with capacity edges + depth 4 on 2 variants; thorough: depth 4 / 5. Both Finalize errors must be legitimate, not equal (map order)."),
 "C19": dict(cat="model_checking", ref="§4 C19",
   technique="exhaustive enumeration of (history, capacity) pairs: every call sequence to depth 4/5 x every buffer capacity 0..size+1 and the nil-target emitter on the real Emitter against a capacity model, histories continue after refusals, then Finalize",
   text="A call that does not fit must panic and leave Bytes, Len, PC, Flags and labels unchanged (and register no label reference, checked through Finalize); a call that fits behaves as in the unbounded model; Len never exceeds Cap; the nil-target emitter reports the same PC, labels and flags after every call.",
   note="Listing lines are outside the property. Quick: 2 constructor variants, thorough: all 10."),
 "C14": dict(cat="model_checking", ref="§4 C14",
   technique="exhaustive enumeration of pre-step states for the three real trace renderers with a parsing oracle (address, bytes, mnemonic, operand digits, addressing-mode features, branch target, register/flag columns) plus every logged RunUntil scenario against an unlogged hand-stepped twin",
   text="Truthfulness: every case of the fetch/operation/flag/frame sweeps, all 256 displacements of every rel8 opcode and a rel16 boundary set are rendered by cpu65c816.DisassembleCurrentPC, cpualt.DisassembleCurrentPC and cpualt.Disassemble and each line is parsed and compared with the pre-step state and image; the call must leave registers, flags, cycles and memory untouched. Non-perturbation: every RunUntil scenario (programs to depth 2/3, all targets, budgets) with a plain and a Reserve/Commit logger must end exactly like the unlogged twin and contain exactly one truthful line per instruction about to execute.",
   note="Cosmetic syntax is not pinned (spacing, case, 'Sn'); structural operand features are. Same stated alphabets as C02."),
 "C12": dict(cat="model_checking", ref="§4 C12",
   technique="explicit-state exploration: cycle/stop oracles on every enumerated Step of both real interpreters and along every instruction sequence (incl. past STP and Reset); every program to depth 3 x target x budget executed through the real System.RunUntil against a hand-stepped twin System, with program-counter callbacks as observers and non-termination guard",
   text="Step part: the C02 sweeps and program search with the oracle cycles >= 1, AllCycles grows by exactly the reported count, stop status true from STP until Reset and never before, OnWDM receives exactly the operand (all 256). RunUntil part: all programs up to depth 3 over a 16-instruction alphabet (loops, STP, block moves, calls) in WRAM and ROM, every instruction boundary / inside-operand / unreachable / other-bank target, budgets {0,1,2,3,5,8,13,50}: result, final CPU state and memory must equal a twin System stepped by hand, callbacks must run exactly once per fetch with the pre-instruction state, and a run that executes more than budget+3 instructions is reported instead of hanging.",
   note="Loop logic is judged against a twin that uses the same Step (Step semantics are C01/C02). cpualt offers no RunUntil and never consults OnPC, which the property allows."),
 "C01": dict(cat="model_checking", ref="§3.1-3.5, §4 C01, Appendix A/B",
   technique="explicit-state exploration of both real interpreters against a reference WDC 65C816 model: exhaustive products of boundary alphabets per opcode (fetch/addressing/operation/flag/frame sweeps) plus DFS over all instruction sequences to depth 4 (5), every transition a real Step compared through an abstraction function",
   text="Every enumerated raw state (all 256 opcodes x relevance-class products of boundary values incl. stale register copies, all 256 P values, bank/page/address-space edges) is stepped once on cpu65c816 and cpualt and compared with the reference model's registers, flags, PC and write set; a program search then executes every sequence over a 62-instruction alphabet (width switches, stack, transfers, block moves, control transfers) from 6 seed states with the reference in lockstep. Deviations are classified by named reference quirks so the recorded decimal-mode finding is recognised by its exact behaviour and anything else is a violation.",
   note="Bounded: exhaustive within the stated union of products and sequence depth, not over all 2^100 states x 2^(2^27) images. Trusts internal/ref65816 (cross-checked against two implementations it was not derived from) and its don't-care mask."),
 "C02": dict(cat="model_checking", ref="§4 C02",
   technique="lockstep differential explicit-state exploration: the same sweeps (E in {0,1}, decimal, pending interrupts) and instruction-sequence DFS executed on both real interpreters from identical raw states, raw-field bisimulation oracle",
   text="Both interpreters are driven from identical raw states and images; after every step every exported register (both copies of A/X/Y), flag, E, Stopped, Interrupt, the per-step cycle count, AllCycles and the write set must be identical, and a panic in exactly one is a difference. Raw equality after each step is the bisimulation that extends single-step agreement to any number of steps.",
   note="Same alphabets and depth bounds as C01; no reference model involved, so emulation and decimal mode need no WDC oracle."),
 "C08": dict(cat="model_checking", ref="§4 C08",
   technique="the C02 exploration plus a product concentrated at the top of the address space, with a failure-freedom and 24-bit-bound oracle on the logged bus accesses of both real interpreters",
   text="Every enumerated Step of both interpreters (boundary sweeps with E in {0,1}, a second pass with DBR $FE/$FF, operands $FFxx, pointers at $FFFFFE/$FFFFFF and PC at the end of bank $FF, and instruction sequences) must complete without a Go runtime failure and every logged read/write address must be below 2^24.",
   note="The wrapped target of each access is judged by C01; here only failure-freedom and the address bound. Same stated alphabets."),
 "C11": dict(cat="exploration", ref="§4 C11",
   technique="exhaustive enumeration of all 2^24 bus addresses for reads (4 identification passes on the real System) and for writes (mirror-layer sweeps with full-array comparison) against the real LoROM mapper",
   text="Every bus address is read through the real System bus with a unique location id planted in every array cell, so the backing cell of each address is identified exactly and compared with what lorom.BusAddressToPak designates; every address both sides consider memory is then written (4 runs per mirror layer, ascending/descending, complementary values) and the ROM, SRAM and WRAM arrays are compared in full with the prediction after each run. The address domain is finite and fully covered.",
   note="Generalisation over array contents rests on the bus never inspecting data values. Addresses only one side considers memory are outside the property."),
 "C13": dict(cat="model_checking", ref="§4 C13",
   technique="explicit-state BFS to a fixpoint over bus routing states, every transition a real Attach on a fresh real Bus (path replay), with per-state exhaustive read/write/EaDump obligations against an owner-map model",
   text="The routing state of a 4-segment window (owner per 16-byte segment, 3 memories, 256 states per window position, 5 positions incl. address 0, a bank edge and the top of the address space) is searched to a fixpoint; every aligned Attach is a transition executed on the real bus, every misaligned variant must be rejected without changing routing, and in every reached state all byte reads/writes and EaDump for every start<=end are compared with the model.",
   note="Assumes the bus treats segments uniformly apart from index arithmetic (why several window positions are used). Fixpoint over the stated alphabet, not over all 2^20 segments."),
 "C09": dict(cat="exploration", ref="§4 C09",
   technique="bounded-deviation exhaustive enumeration of header contents (all single-byte deviations, full product of the two version bytes, all position pairs over a boundary alphabet) on the real parser/serialiser against an independent layout table",
   text="Each enumerated 80-byte header is parsed by the real code, every exported field compared with an independent (address, width) layout table, the version rule checked, the header serialised and re-parsed, and the ROM-level ReadHeader/WriteHeader round trip compared byte for byte on whole images. The space is a stated union of products completely enumerated; the completeness argument (content-independent byte permutation) is recorded in the evidence.",
   note="Not all 2^640 headers: deviation bound 1 over all values, 2 over a 6-value alphabet (thorough: 3 around the version bytes), from 7 base headers."),
 "C10": dict(cat="model_checking", ref="§4 C10",
   technique="exhaustive enumeration of write/read call histories on the real ROM reader/writer (all length sequences to depth 4/5 from boundary offsets, all banks x boundary offsets) against a window reference model with full-image comparison",
   text="Every history of Write/Read calls from the stated alphabet is executed on a fresh real ROM object; after every call the whole image and the returned (n, err) are compared with a reference window model. Deviations are classified by alternative models (reader window short by one, legacy writer), so the one recorded known finding is recognised by its exact behaviour and anything else is a violation.",
   note="Bounded: image sizes 1-4 banks (thorough: also 128 banks), length alphabet {0,1,2,3,4,$7FFE,$7FFF,$8000,$8001}, history depth 4 (5); a partly present last bank is outside the premise."),
 "C04": dict(cat="exploration", ref="§4 C04",
   technique="exhaustive enumeration of all 2^24 bus and 2^24 pak addresses x 4 mappers, composing both translation directions on the real functions",
   text="For every bus address of the whole 24-bit space and every FX Pak Pro address, for each of the four mappers, the real BusAddressToPak/PakAddressToBus are composed and the right-inverse and class/page-offset clauses checked. The input domain is finite and completely enumerated.",
   note="Trusts the three class-window constants; the $F7-$FF pak mirror is counted as WRAM, as the mapper comments say."),
 "C05": dict(cat="exploration", ref="§4 C05, Appendix C",
   technique="exhaustive enumeration of all 2^25 addresses x 4 mappers against an independent region-table model and four structural facets",
   text="Every bus and pak address of every mapper is evaluated on the real code and checked on five facets: error shape and class windows, the pak reject window, the console-owned map shared by all mappers, 8 KiB page uniformity and byte order in both directions, and class/linear position against a data-table transcription of the documented memory maps.",
   note="Trusts the region tables of internal/refmap (self-checked for overlap and window overflow at start-up)."),
 "C17": dict(cat="exploration", ref="§4 C17",
   technique="exhaustive enumeration of the entire input domain (2^16 x 256 x 255 MulDiv triples, 2^24 channel triples) against a closed-form reference",
   text="Every input of MulDiv, ToRGB/ToColor15 and Luminosity is executed on the real functions and compared with the closed form min(31, floor(ch*m/d)); monotonicity is checked directly on the implementation. The domain is finite and fully covered, so this is a complete decision for the property, not a sample.",
   note="Trusts the 10-line Go reference closed form and Go integer arithmetic."),
}
NOT_YET = "check not built yet in this session (planned, see DESIGN.md §4)"
def main():
    checks = []
    for pid in ALL:
        c = CHECKS.get(pid)
        if not c: continue
        checks.append({
            "property_id": pid,
            "quick_cmd": "./run %s quick" % pid,
            "thorough_cmd": "./run %s thorough" % pid,
            "evidence_file": "/verif/evidence/%s.json" % pid,
            "replay_cmd_template": "./run replay {path}",
            "engine": c.get("engine", "explorer"),
            "level_claimed": {"category": c["cat"], "text": c["text"], "design_ref": c["ref"]},
            "level_note": c["note"],
            "technique": c["technique"],
        })
    m = {
        "version": 1,
        "setup_cmd": "./setup.sh",
        "hooks": {
            "guard": "verif",
            "enable": "no source hooks: checks build cmd/verif against /repo's working tree through a go.mod replace; package-private state (C18) and mutants are injected with `go build -overlay`, leaving /repo untouched",
            "baseline_off_cmd": "/verif/baseline.sh /repo",
            "source_commits": [],
            "add_only": True,
        },
        "engines": [
            {"name": "explorer", "path": "/verif/cmd/verif", "serves_properties": sorted(CHECKS),
             "kind_free_text": "hand-written Go explicit-state / exhaustive-domain explorer executing the real alttpo/snes code on every enumerated input, history or schedule, with reference models as oracles"},
        ],
        "checks": checks,
        "not_applicable": [{"property_id": p, "reason": NOT_YET} for p in ALL if p not in CHECKS],
        "notes": "See DESIGN.md. known_findings.json lists recorded/fixed defects; mutants/ and seeded/ hold the detection demonstrations.",
    }
    json.dump(m, open(os.path.join(ROOT, "MANIFEST.json"), "w"), indent=1)
    print("wrote MANIFEST.json with", len(checks), "checks")
main()
