#!/bin/bash
# tools/owncheck.sh [patches...]   every deliberate change against the check of its OWN property only:
# prints VIOLATION count and the number of observations dropped as "not reproduced alone" (a drop with 0
# violations means the recorded case does not replay the scenario: a defect of the check's replay)
HERE="$(cd "$(dirname "$0")/.." && pwd)"; cd "$HERE"
P=("$@"); [ ${#P[@]} = 0 ] && P=(seeded/C*/patch.diff mutants/C*.patch)
bad=0
for p in "${P[@]}"; do
  name=$(echo $p | sed 's#/patch.diff##; s#.*/##; s#\.patch$##'); own=${name:0:3}
  out=$(tools/mutant.sh $p $own 2>&1)
  # the verdict is taken from the summary lines ("Cxx quick: wall=.. violations=N"): mutant.sh shows only the
  # tail of the output, and many "note:" lines can push the VIOLATION lines out of it
  v=$(echo "$out" | grep -o 'violations=[0-9]*' | cut -d= -f2 | paste -sd+ | bc); v=${v:-0}
  n=$(echo "$out" | grep -c '^  note:')
  flag=""; [ $v = 0 ] && { flag="  <-- NOT DETECTED"; bad=1; }
  echo "$name: violations=$v dropped-as-interference=$n$flag"
done
exit $bad
