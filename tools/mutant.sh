#!/bin/bash
# tools/mutant.sh <patch> <check-id> [tier]      run one check against /repo + patch (overlay build, /repo untouched)
# tools/mutant.sh <patch> --baseline             run the repository's own tests with the patch (must still pass)
# exit status: that of the check (1 = violation detected) / of baseline.sh
set -u
HERE="$(cd "$(dirname "$0")/.." && pwd)"   # works from a `vp run` snapshot too: everything is taken from this tree
PATCH=$(readlink -f "$1"); shift
WHAT=$1; shift
TIER=${1:-quick}
export GOFLAGS=-mod=mod GOPROXY=off GOSUMDB=off GOTOOLCHAIN=local GOCACHE=/verif/.gocache
W=$(mktemp -d /scratch/mut-XXXXXX)
trap 'rm -rf "$W"' EXIT
mkdir -p "$W/src" "$W/root/evidence" "$W/root/replays"
cp "$HERE/known_findings.json" "$W/root/"
# copy the files the patch touches, apply, build the overlay map
FILES=$(grep '^+++ b/' "$PATCH" | sed 's#^+++ b/##')
OV="$W/overlay.json"
echo '{"Replace":{' > "$OV"
first=1
for f in $FILES; do
  mkdir -p "$W/src/$(dirname $f)"
  if [ -f "/repo/$f" ]; then cp "/repo/$f" "$W/src/$f"; fi
done
( cd "$W/src" && patch -s -p1 < "$PATCH" ) || { echo "PATCH DOES NOT APPLY: $PATCH"; exit 3; }
for f in $FILES; do
  [ $first = 1 ] || echo ',' >> "$OV"; first=0
  echo "\"/repo/$f\": \"$W/src/$f\"" >> "$OV"
done
echo '}}' >> "$OV"
if [ "$WHAT" = "--baseline" ]; then
  OUT="$W/test.json"
  (cd /repo && go test -overlay "$OV" -mod=mod -json -vet=off -count=1 -timeout 25m ./... ) > "$OUT" 2>/dev/null
  python3 - "$OUT" <<'PY'
import json,sys
base=set(json.load(open('/root/.vp/BASELINE.json'))['stable_pass'])
passed=set()
for l in open(sys.argv[1]):
    try: e=json.loads(l)
    except Exception: continue
    if e.get('Action')=='pass' and e.get('Test'): passed.add(e['Package']+'::'+e['Test'])
missing=sorted(base-passed)
print("baseline with mutant: %d/%d passing"%(len(passed&base),len(base)))
for m in missing[:10]: print("  NOT PASSING:",m)
sys.exit(1 if missing else 0)
PY
  exit $?
fi
cd "$HERE"
VERIF_EXTRA_OVERLAY="$OV" VERIF_ROOT="$W/root" VERIF_BINDIR="$W/bin" ./run "$WHAT" "$TIER" | cut -c1-260 | awk '/^  note:/{n++; if (n>5) next} {print}' | tail -40
exit ${PIPESTATUS[0]}
