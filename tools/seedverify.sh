#!/bin/bash
# tools/seedverify.sh <seeded-dir-name>     e.g. tools/seedverify.sh C06-finalize-forgets-out-of-range-refs
# In a fresh scratch worktree of /repo HEAD (under /scratch, removed afterwards): the demonstration must pass
# without the change and fail with it, and the repository's own suite must still pass with the change.
S=/verif/seeded/$1
[ -f "$S/meta.json" ] || { echo "no such seeded change"; exit 2; }
dir=$(python3 -c "import json;print(json.load(open('$S/meta.json'))['demonstration']['place_in'])")
demo=$(python3 -c "import json;print(json.load(open('$S/meta.json'))['demonstration']['file'])")
extra=""; case "$1" in C18-*) extra="-race";; esac
# optional environment for the demonstration (e.g. GOARCH=386)
denv=$(python3 -c "import json;print(json.load(open('$S/meta.json'))['demonstration'].get('env',''))")
[ -n "$denv" ] && export $denv
export GOFLAGS=-mod=mod GOPROXY=off GOSUMDB=off GOTOOLCHAIN=local GOCACHE=/verif/.gocache
W=/scratch/sw-$$
mkdir -p /scratch
git -C /repo worktree add -q --detach $W HEAD || exit 2
trap 'cd /; git -C /repo worktree remove --force '$W' 2>/dev/null' EXIT
mkdir -p $W/$dir && cp $S/$demo $W/$dir/
# only the demonstration's own tests (some package directories hold tests that fail on the clean tree)
pat=$(grep -h -o '^func Test[A-Za-z0-9_]*' $S/$demo | sed 's/^func //' | paste -sd'|')
extra="$extra -run ^($pat)\$"
cd $W
go test $extra -vet=off -count=1 ./$dir/ > /dev/null 2>&1; a=$?
git apply $S/patch.diff || { echo "$1 PATCH DOES NOT APPLY"; exit 2; }
go test $extra -vet=off -count=1 ./$dir/ > /dev/null 2>&1; b=$?
rm -f $W/$dir/$demo
[ -n "$denv" ] && unset ${denv%%=*}
/verif/baseline.sh $W > /tmp/sv-$$.txt 2>&1; c=$?
echo "$1: demo without change rc=$a (want 0), with change rc=$b (want !=0), repository suite rc=$c (want 0): $(tail -1 /tmp/sv-$$.txt)"
rm -f /tmp/sv-$$.txt
[ $a = 0 ] && [ $b != 0 ] && [ $c = 0 ]
