#!/bin/bash
# validates MANIFEST.json and every evidence file against the schemas
python3-vt - <<'PY'
import json,jsonschema,glob,sys
ok=True
try:
    jsonschema.validate(json.load(open('/verif/MANIFEST.json')),json.load(open('/root/.vp/MANIFEST.schema.json')))
except Exception as e:
    print("MANIFEST invalid:",e); ok=False
es=json.load(open('/root/.vp/EVIDENCE.schema.json'))
for f in sorted(glob.glob('/verif/evidence/*.json')):
    try: jsonschema.validate(json.load(open(f)),es)
    except Exception as e:
        print(f,"invalid:",str(e)[:300]); ok=False
print("valid" if ok else "INVALID"); sys.exit(0 if ok else 1)
PY
