#!/bin/bash
# tools/runsome.sh <tier> <ids...>   like runall for a subset
HERE="$(cd "$(dirname "$0")/.." && pwd)"; cd "$HERE"
TIER=$1; shift
if [ "$HERE" != "/verif" ]; then export VERIF_BINDIR="$HERE/bin" VERIF_ROOT="$HERE"; cp -n /verif/known_findings.json "$HERE/" 2>/dev/null; fi
for id in "$@"; do
  s=$(date +%s); out=$(./run $id $TIER 2>&1); rc=$?
  echo "$id rc=$rc $(( $(date +%s)-s ))s $(echo "$out" | grep -c '^VIOLATION') violations $(echo "$out" | grep -c '^KNOWN-FINDING') known"
  echo "$out" | grep -A1 "^  what" | cut -c1-300 | head -6
done
