#!/bin/bash
# tools/coverage.sh [Cxx,Cyy,...]   statement coverage of alttpo/snes reached by the quick tier of the given
# checks (default: all of cmd/verif's checks, one after the other; C18 has its own tools/c18coverage.sh).
# Purpose: a statement no exploration reaches is a dimension the drivers do not have.
cd /verif
export GOFLAGS=-mod=mod GOPROXY=off GOSUMDB=off GOTOOLCHAIN=local GOCACHE=/verif/.gocache
ids=${1:-C01,C02,C03,C04,C05,C06,C07,C08,C09,C10,C11,C12,C13,C14,C15,C16,C17,C19}
W=$(mktemp -d /scratch/cov-XXXXXX); trap 'rm -rf $W' EXIT
export VERIF_ROOT=$W
mkdir -p $W/evidence $W/replays; cp /verif/known_findings.json $W/ 2>/dev/null
VERIF_COVER_IDS=$ids go test -count=1 -vet=off -timeout 3h -run TestCoverRun -coverpkg=github.com/alttpo/snes/... -coverprofile=$W/cov.txt ./internal/checks/ | tail -3
cp $W/cov.txt /verif/.work/coverage-last.txt 2>/dev/null
echo "--- functions with statements never reached (checks: $ids):"
go tool cover -func=$W/cov.txt | awk '$3+0 < 100.0 {print}'
