#!/bin/bash
# tools/c18coverage.sh   statement coverage of alttpo/snes reached by the C18 thread bodies, per function.
# The schedule search and the race pass can only notice shared state on code paths the bodies execute.
cd /verif
export GOFLAGS=-mod=mod GOPROXY=off GOSUMDB=off GOTOOLCHAIN=local GOCACHE=/verif/.gocache
W=$(mktemp -d /scratch/cov-XXXXXX); trap 'rm -rf $W' EXIT
go test -count=1 -vet=off -run TestBodies -coverpkg=github.com/alttpo/snes/... -coverprofile=$W/cov.txt ./internal/c18ops/ | tail -2
echo "--- functions with statements never reached by the thread bodies:"
go tool cover -func=$W/cov.txt | awk '$3+0 < 100.0 {print}' | head -120
