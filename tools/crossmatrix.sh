#!/bin/bash
# tools/crossmatrix.sh [patches...]   runs EVERY check (quick) against each deliberate change and prints which
# checks report it. Alarms by checks of properties the change was not written to break are listed so they can be
# judged (a legitimate second property broken, or an over-strict oracle).
HERE="$(cd "$(dirname "$0")/.." && pwd)"; cd "$HERE"
P=("$@"); [ ${#P[@]} = 0 ] && P=(mutants/C*.patch seeded/C*/patch.diff)
for p in "${P[@]}"; do
  name=$(echo $p | sed 's#/patch.diff##; s#.*/##; s#\.patch$##'); own=${name:0:3}
  hits=""
  for i in $(seq -w 1 19); do
    tools/mutant.sh $p C$i > /tmp/cross.$$ 2>&1; rc=$?
    if [ $rc = 1 ]; then hits="$hits C$i"; elif [ $rc != 0 ]; then hits="$hits C$i(rc=$rc)"; fi
  done
  echo "$name: own=$own reported-by:$hits"
done
rm -f /tmp/cross.$$
