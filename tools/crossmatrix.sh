#!/bin/bash
# tools/crossmatrix.sh [patches...]   runs every check that can be affected by the files a deliberate change
# touches (by package dependency) and prints which checks report it. Alarms by checks of properties the change was
# not written to break are then judged: a legitimately broken second property, or an over-strict oracle.
HERE="$(cd "$(dirname "$0")/.." && pwd)"; cd "$HERE"
ONLY=${CROSS_ONLY:-}
P=("$@"); [ ${#P[@]} = 0 ] && P=(seeded/C*/patch.diff mutants/C*.patch)
for p in "${P[@]}"; do
  name=$(echo $p | sed 's#/patch.diff##; s#.*/##; s#\.patch$##'); own=${name:0:3}
  files=$(grep '^+++ b/' $p | sed 's#+++ b/##')
  sel=""
  for f in $files; do
    case $f in
      emulator/cpu65c816/*|emulator/cpualt/cpu*) sel="$sel C01 C02 C07 C08 C12 C14";;
      emulator/cpualt/bus.go) sel="$sel C01 C02 C08 C12 C13 C14";;
      emulator/bus/*) sel="$sel C01 C02 C08 C11 C12 C13 C14";;
      emulator/memory/*) sel="$sel C11 C12 C13";;
      emulator/system.go) sel="$sel C11 C12 C14";;
      xbuf/*) sel="$sel C14 C15 C16";;
      asm/*) sel="$sel C03 C06 C07 C15 C16 C19";;
      mapping/*) sel="$sel C04 C05 C11";;
      rom.go|header.go) sel="$sel C09 C10";;
      color15/*) sel="$sel C17";;
    esac
  done
  sel="$sel $own"   # (C18 runs only for its own changes: it takes a race build per change)
  sel=$(echo $sel | tr ' ' '\n' | sort -u | tr '\n' ' ')
  # CROSS_ONLY="C06 C15 ..." restricts the checks that are run
  if [ -n "$ONLY" ]; then sel=$(for c in $sel; do case " $ONLY " in *" $c "*) echo -n "$c ";; esac; done); fi
  hits=""
  for c in $sel; do
    tools/mutant.sh $p $c > /tmp/cross.$$ 2>&1; rc=$?
    if [ $rc = 1 ]; then hits="$hits $c"; [ $c != $own ] && detail="$detail\n      $c: $(grep -m1 'what:' /tmp/cross.$$ | cut -c1-400)"; elif [ $rc != 0 ]; then hits="$hits $c(rc=$rc)"; fi
  done
  echo -e "$name: own=$own checked:[$sel] reported-by:$hits$detail"; detail=""
done
rm -f /tmp/cross.$$
