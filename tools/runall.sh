#!/bin/bash
# runs every check's quick (or given tier) command, prints one line per check
cd /verif
TIER=${1:-quick}
for i in $(seq -w 1 19); do
  s=$(date +%s)
  out=$(./run C$i $TIER 2>&1); rc=$?
  echo "C$i rc=$rc $(( $(date +%s)-s ))s $(echo "$out" | grep -c '^VIOLATION') violations $(echo "$out" | grep -c '^KNOWN-FINDING') known"
done
