#!/bin/bash
# tools/runall.sh [tier]   runs every check's command for the tier from the directory this script lives in
# (works inside a `vp run` snapshot: binaries and evidence go to the snapshot, not to /verif)
HERE="$(cd "$(dirname "$0")/.." && pwd)"
cd "$HERE"
TIER=${1:-quick}
if [ "$HERE" != "/verif" ]; then export VERIF_BINDIR="$HERE/bin" VERIF_ROOT="$HERE"; cp -n /verif/known_findings.json "$HERE/" 2>/dev/null; fi
for i in $(seq -w 1 19); do
  s=$(date +%s)
  out=$(./run C$i $TIER 2>&1); rc=$?
  echo "C$i rc=$rc $(( $(date +%s)-s ))s $(echo "$out" | grep -c '^VIOLATION') violations $(echo "$out" | grep -c '^KNOWN-FINDING') known"
  echo "$out" | grep -A1 "^  what" | cut -c1-300 | head -6
done
