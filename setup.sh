#!/bin/bash
# setup_cmd: warm the build cache and pre-build the checker (offline).
set -e
cd "$(dirname "$0")"
export GOFLAGS=-mod=mod GOPROXY=off GOSUMDB=off GOTOOLCHAIN=local
export GOCACHE=/verif/.gocache
mkdir -p bin evidence replays .work
./run build
if [ -x ./setup_extra.sh ]; then ./setup_extra.sh; fi
echo setup ok
