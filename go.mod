module verif

go 1.17

require github.com/alttpo/snes v0.0.0

replace github.com/alttpo/snes => /repo
